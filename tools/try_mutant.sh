#!/bin/sh
# usage: tools/try_mutant.sh <seed id> <prop> [vcheck args...]   applies seeded/<id>/patch.diff to /repo, runs the check, reverts
id=$1; prop=$2; shift 2
git -C /repo apply /verif/seeded/$id/patch.diff || exit 3
VERIF_NO_EVIDENCE=1 /verif/vcheck $prop "$@" > /tmp/mut_$id.log 2>&1
rc=$?
git -C /repo checkout -- .
echo "$id on $prop: exit=$rc"
grep -v "^warning" /tmp/mut_$id.log | grep "VIOLATION\|KNOWN\|FAIL\|violation\|failed check\|INCONCL" | cut -c1-260 | head -12
