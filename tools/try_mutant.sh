#!/bin/sh
# usage: tools/try_mutant.sh <seed id> <prop> [vcheck args...]
# applies seeded/<id>/patch.diff to a scratch worktree of /repo's HEAD (so concurrent background runs that copy
# /repo are not disturbed), runs the check against it (VERIF_REPO), removes the worktree.
id=$1; prop=$2; shift 2
wt=/tmp/mut/work_$id
git -C /repo worktree remove --force $wt 2>/dev/null
git -C /repo worktree add --detach $wt HEAD -q || exit 3
pf=/verif/seeded/$id/patch.diff; [ -f /verif/seeded/$id/patch_head.diff ] && pf=/verif/seeded/$id/patch_head.diff  # rebased onto the repaired tree
git -C $wt apply $pf || { echo "patch does not apply on HEAD"; git -C /repo worktree remove --force $wt; exit 3; }
VERIF_REPO=$wt /verif/vcheck $prop "$@" > /tmp/mut_$id.log 2>&1
rc=$?
git -C /repo worktree remove --force $wt
echo "$id on $prop $*: exit=$rc"
grep -a -v "^warning" /tmp/mut_$id.log | grep -a "VIOLATION\|KNOWN\|FAIL \|violation\|failed check\|INCONCL" | cut -c1-260 | head -12
