#!/usr/bin/env python3
"""validate_mutant.py <src_dir with patch.diff demo.diff README.md> <seed id> <property>
Confirms in a scratch worktree (outside /repo and /verif):
  (1) patch applies, workspace builds, existing suite passes with the patch,
  (2) demo fails with the patch, (3) demo passes without the patch.
On success copies the files to /verif/seeded/<seed id>/ and writes meta.json."""
import sys, os, subprocess, json, re, shutil
src, sid, prop = sys.argv[1], sys.argv[2], sys.argv[3]
WT = "/tmp/mut/val"
ENV = dict(os.environ, CARGO_NET_OFFLINE="true")
def sh(cmd, **kw):
    return subprocess.run(cmd, shell=True, cwd=WT, env=ENV, stdout=subprocess.PIPE, stderr=subprocess.STDOUT, text=True, **kw)
if not os.path.isdir(WT):
    subprocess.check_call("git -C /repo worktree add --detach %s HEAD -q" % WT, shell=True)
def reset():
    sh("git checkout -- . && git clean -fdq -e target")
def tests(args=""):
    r = sh("cargo test --workspace --no-fail-fast --offline %s 2>&1" % args)
    passed = sum(int(x) for x in re.findall(r"test result: \w+\. (\d+) passed", r.stdout))
    failed = sum(int(x) for x in re.findall(r"test result: \w+\. \d+ passed; (\d+) failed", r.stdout))
    names = re.findall(r"^test (\S+) \.\.\. FAILED", r.stdout, re.M)
    return r.returncode, passed, failed, names, r.stdout
reset()
res = {"seed": sid, "property": prop}
a = sh("git apply %s/patch.diff" % src)
if a.returncode: sys.exit("patch does not apply: " + a.stdout)
rc, p, f, names, out = tests()
res["suite_with_patch"] = {"rc": rc, "passed": p, "failed": f}
if rc != 0 or f != 0: sys.exit("existing suite fails with patch: %s\n%s" % (names, out[-2000:]))
a = sh("git apply %s/demo.diff" % src)
if a.returncode: sys.exit("demo does not apply on patched tree: " + a.stdout)
rc, p, f, names, out = tests()
res["demo_with_patch"] = {"rc": rc, "passed": p, "failed": f, "failing_tests": names}
if f == 0: sys.exit("demo does not fail with the patch")
a = sh("git apply -R %s/patch.diff" % src)
if a.returncode: sys.exit("cannot revert patch: " + a.stdout)
rc, p, f, names2, out = tests()
res["demo_without_patch"] = {"rc": rc, "passed": p, "failed": f}
if rc != 0 or f != 0: sys.exit("demo fails on the pristine tree too: %s" % names2)
reset()
dst = "/verif/seeded/" + sid
os.makedirs(dst, exist_ok=True)
for fn in ("patch.diff", "demo.diff", "README.md"):
    shutil.copy(os.path.join(src, fn), os.path.join(dst, fn))
res["ran"] = ["git apply patch.diff; cargo test --workspace --no-fail-fast --offline  (all pass)",
              "git apply demo.diff; cargo test --workspace ...  (demo tests fail: %s)" % ", ".join(names),
              "git apply -R patch.diff; cargo test --workspace ...  (all pass incl. demo)"]
res["breaks"] = prop
json.dump(res, open(os.path.join(dst, "meta.json"), "w"), indent=1)
print("OK", sid, res["demo_with_patch"]["failing_tests"])
