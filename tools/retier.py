#!/usr/bin/env python3
"""Rewrites the `// @props` line of every harness from the table below: which harness is in the QUICK tier of which
property. A harness listed for a property but not in that property's quick list runs in its thorough tier only.
The quick tier of every property is sized to finish in well under 900 s on this machine (16 cores, 62 GB):
longest member < ~550 s and (sum of walls) / (concurrency allowed by the memory reservations) < ~550 s."""
import os, re, sys
VERIF = os.path.dirname(os.path.dirname(os.path.abspath(__file__)))
sys.path.insert(0, os.path.join(VERIF, "lib"))
from vlib import meta

C04_DECODE = ["c04_%s_decode" % t for t in ("sync", "delay_req", "follow_up", "delay_resp", "pdelay_req", "pdelay_resp",
                                            "pdelay_resp_follow_up", "announce", "signaling", "management")]
C04_ENCODE = ["c04_encode_%s" % t for t in ("sync", "delay_req", "follow_up", "delay_resp", "pdelay_req", "pdelay_resp",
                                            "pdelay_resp_follow_up", "announce")]
QUICK = {
 "C03": ["c04_sync_decode", "c15_tlv_builder_readback", "c13_basic_filter_finite", "c13_basic_filter_equal_event_times",
         "c13_progress_filtertime_backwards", "c03_sync_correction_exceeds_receive_time",
         "c03_follow_up_negative_correction_exceeds_timestamp", "c12_announce_receipt_timer", "c12_delay_request_timer",
         "c10_follow_up", "c10_send_sync", "c09_delay_timestamp", "c14_pdelay_timestamp", "c11_parent_announce_steps_65535",
         "c07_foreign_master_registration", "c07_announce_rejected", "c03_foreign_master_list_step_age",
         "c06_record_step_age", "c06_record_register", "c06_list_take_qualified", "c06_list_register",
         "c06_bmca_take_best_n01", "c13_change_frequency_est_pos", "c13_change_frequency_est_neg",
         "c13_demobilize_pos", "c13_demobilize_neg"],
 "C04": C04_DECODE + C04_ENCODE + ["c04_sync_roundtrip", "c04_announce_roundtrip", "c04_unknown_types_rejected",
                                   "c04_enum_octet_maps", "c15_tlv_builder_readback"],
 "C05": ["c05_best_compare_matches_reference", "c05_best_compare_transitive", "c05_find_best_maximal_and_order_independent",
         "c05_state_decision_matches_reference", "c05_compare_matches_reference", "c05_compare_antisymmetric",
         "c05_as_ordering_total", "c05_bmca_one_port", "c08_apply_recommendation"],
 "C06": ["c06_record_step_age", "c06_record_register", "c06_list_step_age", "c06_list_take_qualified", "c06_list_register",
         "c06_bmca_take_best_n01", "c06_bmca_take_best_n2a", "c06_bmca_take_best_n2b"],
 "C07": ["c07_gate_short", "c07_announce_rejected", "c07_slave_messages_in_other_states",
         "c07_foreign_master_registration", "c09_delay_resp"],
 "C08": ["c10_follow_up", "c10_delay_resp", "c10_send_sync", "c11_send_announce_pt", "c11_send_announce_nopt", "c12_announce_receipt_timer",
         "c12_delay_request_timer", "c08_kalman_peer_delay_only_never_steers", "c05_bmca_one_port",
         "c08_apply_recommendation", "stub_interval_matches_real"],
 "C09": ["c09_sync", "c09_follow_up", "c09_delay_timestamp", "c09_delay_resp",
         "c03_sync_correction_exceeds_receive_time", "c03_follow_up_negative_correction_exceeds_timestamp"],
 "C10": ["c10_send_sync", "c10_follow_up", "c10_delay_resp", "c10_pdelay_resp", "c10_pdelay_resp_follow_up",
         "c12_delay_request_timer", "stub_interval_matches_real"] + [x for x in C04_ENCODE if x != "c04_encode_announce"],
 "C11": ["c11_send_announce_pt", "c11_send_announce_nopt", "c11_handle_announce_slave_no_tlv", "c11_parent_announce_steps_65535", "c05_bmca_one_port",
         "c04_encode_announce", "stub_interval_matches_real"],
 "C12": ["c12_announce_receipt_timer", "c12_delay_request_timer", "c12_filter_update_timer", "c12_announce_duration_real",
         "c12_new_port_base_case", "c12_faulty_recovery_requests_receipt_timer", "c10_send_sync", "c11_send_announce_pt", "c11_send_announce_nopt",
         "c05_bmca_one_port", "c08_apply_recommendation", "stub_interval_matches_real"],
 "C13": ["c13_basic_filter_finite", "c13_basic_filter_equal_event_times", "c13_change_frequency_est_pos",
         "c13_change_frequency_est_neg", "c13_change_frequency_noest_pos", "c13_change_frequency_noest_neg",
         "c13_steer_default_pos", "c13_steer_default_neg", "c13_demobilize_pos", "c13_demobilize_neg",
         "c13_progress_filtertime_backwards"],
 "C14": ["c14_pdelay_resp", "c14_pdelay_resp_follow_up", "c14_pdelay_timestamp", "c10_pdelay_resp",
         "c10_pdelay_resp_follow_up", "c12_delay_request_timer", "c12_faulty_recovery_requests_receipt_timer",
         "c04_encode_pdelay_req"],
 "C15": ["c11_send_announce_pt", "c11_send_announce_nopt", "c15_forward_any_lengths",
         "c15_tlv_builder_readback", "stub_interval_matches_real"],
 "C16": ["c16_k_add_sub_roundtrip", "c16_k_wire_and_interval"],
 "C17": ["c10_follow_up", "c12_announce_receipt_timer", "c12_delay_request_timer", "c09_delay_timestamp",
         "c14_pdelay_timestamp", "c15_forward_any_lengths", "c11_handle_announce_slave_no_tlv", "c05_bmca_one_port",
         "c07_announce_rejected", "c12_new_port_base_case"],
}


def main():
    hs = meta.scan()
    names = set(h.fn for h in hs)
    for p, lst in QUICK.items():
        for n in lst:
            if n not in names:
                sys.exit("retier: %s (quick for %s) is not a harness" % (n, p))
    by_file = {}
    for h in hs:
        by_file.setdefault(h.file, []).append(h)
    for path, lst in by_file.items():
        src = open(path).read()
        for h in lst:
            for p in h.props:
                if p in QUICK and h.fn in QUICK[p] and p not in [q for q in h.props]:
                    pass
            props = []
            for p in h.props:
                t = "quick" if h.fn in QUICK.get(p, []) else "thorough"
                props.append("%s:%s" % (p, t))
            # properties that list the harness as quick but are not yet in @props
            for p, l in QUICK.items():
                if h.fn in l and p not in h.props:
                    props.append("%s:quick" % p)
            m = re.search(r"(// @harness %s\n// @props )([^\n]*)" % re.escape(h.fn), src)
            if not m:
                sys.exit("retier: cannot find @props of %s in %s" % (h.fn, path))
            src = src[:m.start(2)] + " ".join(props) + src[m.end(2):]
        open(path, "w").write(src)
    # report
    hs = meta.scan()
    for p in sorted(QUICK):
        q = [h.fn for h in hs if p in h.props and h.prop_tier.get(p, h.tier) == "quick"]
        t = [h.fn for h in hs if p in h.props and h.prop_tier.get(p, h.tier) != "quick"]
        print("%s quick=%d thorough-only=%d" % (p, len(q), len(t)))


if __name__ == "__main__":
    main()
