#!/usr/bin/env python3
"""Regenerates MANIFEST.json from the table below (single source of truth for claims)."""
import json, os, sys
VERIF = os.path.dirname(os.path.dirname(os.path.abspath(__file__)))

K = "bounded model checking of the compiled crate (Kani 0.68 / CBMC 6.11, in-crate harnesses over kani::any(), unwinding assertions on)"
M = "SMT (z3 4.8.12 + cvc5 1.0) over a symbolic execution of the rustc MIR of the listed functions, `fixed` operations summarised"

KH = "one inductive step of the real handler from an arbitrary symbolic port / instance state (Kani harness compiled inside the crate)"
STUBS = ("Stubs (each listed per harness in the evidence): Message::serialize -> recording stub (typed oracle; octet level decided by c04_encode_*), "
         "Time::secs/subsec_nanos -> contract discharged by engine M (c16_secs_contract_for_stubs), Interval::as_core_duration -> integer equivalent (validated for 2^0 s), "
         "Duration::mul_f64 -> monotone contract, core::mem::swap -> loop-free equivalent, Bmca::take_best_port_announce_message -> 'none or any qualified Announce'.")

CLAIMS = {
 "C03": dict(
    technique="Kani/CBMC built-in checks (panic, overflow, index, unwrap, debug_assert) over every entry point, one inductive step each",
    text="Bounded model checking with Kani's default checks as the oracle: every Port handler, timer, BMCA application and the byte gate is executed from an arbitrary "
         "symbolic state with arbitrary arguments in the dev profile (debug assertions and overflow checks on, so a release-mode wrap is the same failed check). "
         "Histories follow by induction over the stated representation invariant. Known input classes that do panic are isolated in twin harnesses and listed in known_findings.json.",
    note="Trusted: Kani/CBMC; " + STUBS + " Outside: frames > 76 octets, list-level foreign-master code, Kalman matrix algebra, log intervals other than 2^0 s.",
    ref="4/C03"),
 "C04": dict(
    technique="Kani/CBMC differential harnesses against an independently written Clause 13 reference codec (symbolic frames)",
    text="For each of the ten message types: every frame of 34 + body + 12 octets with symbolic content, symbolic buffer length and symbolic messageLength is decoded by the real "
         "parser and by the reference; acceptance, every defined field, the TLV walk, re-encoding into a dirty buffer (length, defined bits, decode(encode(m)) == m) are compared; "
         "the encode direction is checked for arbitrary typed messages.",
    note="Trusted: Kani/CBMC and harness/root/refcodec.rs (the Clause 13 offset table). Suffixes longer than 12 octets repeat the same loop (outside).",
    ref="4/C04"),
 "C05": dict(
    technique="Kani/CBMC differential harnesses against a reference BMCA (symbolic data sets)",
    text="Bounded model checking (SAT verdict over every value of the symbolic inputs inside the stated bounds) of the real "
         "dataset comparison, state decision and BMCA application code against an independently written reference of "
         "Figures 33-35: comparison on fully symbolic data sets, order properties, Ebest selection over all presentation orders, state decision for every "
         "D0/Ebest/Erbest/prior state, and PtpInstanceState::bmca with arbitrary prior states over a one-port instance (quick tier) and a two-port instance (thorough tier).",
    note="Trusted: Kani/CBMC, the transcription of the standard's figures in harness/root/refbmca.rs; "
         "foreign-master list contents are abstracted (one qualified candidate per port via a stub of take_best_port_announce_message).",
    ref="4/C05"),
 "C06": dict(
    technique="Kani/CBMC one-operation inductive steps on the real ForeignMasterList / ForeignMaster / Bmca code from arbitrary list states (record/list assume-guarantee split)",
    text="Bounded model checking of one operation (ageing step, registration, qualified-message take, Bmca::take_best_port_announce_message) of the real list code from an arbitrary "
         "list state satisfying the stated representation invariant: every shape of 0..=2 records with 1..=2 messages (capacities scaled 8 -> 2), symbolic ages, sequence ids, "
         "stepsRemoved, sender (known master / new master / own clock) and step lengths; Announce payloads concrete. Decides, by induction over operations: a master is offered to the "
         "state decision only with two Announces younger than four announce intervals, never with stepsRemoved >= 255 or the own clock identity, also across the 65535->0 wrap; "
         "a silent master is gone at the first BMCA run at or after four intervals; a message inside the window is never dropped; each BMCA run restores the record of Erbest and "
         "leaves every other master its older message.",
    note="Trusted: Kani/CBMC; the documented behaviour of arrayvec's ArrayVec::retain / remove (replaced by element-wise equivalents for <= 2 elements in the record-level and Bmca-level harnesses); "
         "the record/list split (record-level functions decided stand-alone, replaced by argument-recording stubs at list level). Outside: capacities 8 x 8, symbolic Announce payloads, and the "
         "interplay over time of arrival phases, BMCA runs and the receipt timer (the sixteen-interval horizon of the quantifier) - in particular 'a regularly announcing master is never dropped as a candidate' is NOT decided.",
    ref="4/C06"),
 "C07": dict(
    technique="Kani/CBMC one-step no-op harnesses (state snapshot before/after) + byte gate on symbolic frames",
    text="Non-interference reduced to a one-step no-op property: from an arbitrary state, a frame of a foreign domain/sdoId/version or malformed, an Announce from an unacceptable "
         "master or with the port's own identity, and Sync/Follow_Up/Delay_Resp not from the parent or for another requester return no actions and leave the observable "
         "state (port state, exchange slots, counters, filter and clock call counts, data sets, foreign-master records) bit-identical; handlers are deterministic, so two runs stay in lock step.",
    note="Trusted: Kani/CBMC; Inv: a slave's parent passed the acceptable-master gate. " + STUBS,
    ref="4/C07"),
 "C08": dict(
    technique="Kani/CBMC inductive role invariant over handlers and BMCA; emission guards per handler",
    text="Every emitting handler is run from every port state: Announce/Sync/Follow_Up/Delay_Resp only leave a Master port, end-to-end Delay_Req only a Slave port; "
         "BMCA yields S1 only for the port that received Ebest (never master-only or faulty; at most one S1 over two ports in the thorough tier), no Master under slave-only (additionally every decision M1/M2/M3/P1/P2/S1 is applied to one port from every port state in the quick tier, c08_apply_recommendation, because a one-port instance never receives M3/P2), and the filter is demobilized exactly when a port leaves slave/faulty.",
    note="Trusted: Kani/CBMC. " + STUBS + " Clock commands of the real Kalman filter on non-slave ports are argued from the filter swap, not model-checked.",
    ref="4/C08"),
 "C09": dict(
    technique="Kani/CBMC one-step harnesses with an integer reference formula over arbitrary stored half-exchanges",
    text=KH + ": handle_sync, handle_follow_up, Delay_Req transmit timestamp and handle_delay_resp with arbitrary stored slots (any ids, any times) and arbitrary arguments; "
         "a measurement reaches the filter iff the arriving half completes the stored half with the same sequence id from the parent, equals the IEEE formula bit for bit (2^-32 ns) "
         "written independently over plain integers, and the slot is consumed. Interleavings, duplicates and losses follow by induction.",
    note="Trusted: Kani/CBMC. Receive times >= 2^47 ns / wire seconds >= 2^18 in these harnesses (the underflow corner is a C03 finding).",
    ref="4/C09"),
 "C10": dict(
    technique="Kani/CBMC one-step harnesses on the typed message handed to the serializer + encode harnesses + engine M contract",
    text=KH + " for send_sync, Sync transmit timestamp, handle_delay_req, handle_pdelay_req and its transmit timestamp: exactly one message of the right type with the echoed "
         "identifiers, the port's identity, domain, sdoId and version; timestamp + correction equal the reported time to 2^-16 ns; sequence counters advance by one mod 2^16; at most one event send. "
         "Octet-level encoding of any typed message is decided separately (c04_encode_*), the seconds/nanoseconds split by engine M.",
    note="Trusted: Kani/CBMC, z3/cvc5. " + STUBS,
    ref="4/C10"),
 "C11": dict(
    technique="Kani/CBMC one-step harnesses: send_announce vs data sets, handle_announce and BMCA data-set updates",
    text=KH + ": the Announce handed to the serializer carries exactly parentDS/currentDS/timePropertiesDS (all flag combinations); an Announce from the parent updates the data sets "
         "to its contents with stepsRemoved + 1; BMCA M1/M2 writes the own attributes with stepsRemoved 0, S1 the selected parent's.",
    note="Trusted: Kani/CBMC. " + STUBS,
    ref="4/C11"),
 "C12": dict(
    technique="Kani/CBMC safety reduction of liveness: every state change requests the timers that keep the new state alive",
    text="Liveness reduced to a one-step safety invariant: each timer handler and each BMCA state change returns the Reset*Timer actions the new state needs "
         "(master: announce + sync; slave: receipt + delay; listening: receipt), with durations equal to the configured intervals / within timeout * interval * [1, 2]; periodic senders re-arm themselves.",
    note="Trusted: Kani/CBMC. Time itself is abstract (armed / not armed, requested durations); intervals 2^0 s. " + STUBS,
    ref="4/C12"),
 "C13": dict(
    technique="Kani/CBMC bit-precise f64 harnesses on the servo's command stage",
    text="Command stage only: from an arbitrary non-NaN estimator state the frequency handed to the clock is finite and within the configured bound (one rounding), steps are at least the threshold; "
         "the estimator's floating-point trajectory over measurement sequences is outside.",
    note="Trusted: Kani/CBMC's IEEE-754 encoding. Not decided: finiteness over arbitrary measurement sequences (no inductive invariant of the covariance update).",
    ref="4/C13"),
 "C14": dict(
    technique="Kani/CBMC one-step harnesses over arbitrary peer-delay records with an integer reference formula",
    text=KH + " for Pdelay_Resp, Pdelay_Resp_Follow_Up, the request's transmit timestamp and the request timer: link delay == ((t4-t1)-(t3-t2))/2 on the values stored for the current id, "
         "a second responder makes the port faulty without using its message, a faulty port recovers after a single-responder exchange.",
    note="Trusted: Kani/CBMC. " + STUBS,
    ref="4/C14"),
 "C15": dict(
    technique="Kani/CBMC harnesses with a contract-honouring TLV provider at boundary sizes (MAX_DATA_LEN scaled to 128)",
    text="Send side: a master port with a two-TLV provider at sizes below / equal to / above the remaining room, parent and non-parent senders, path trace on/off: exactly the parent's fitting TLVs, once, in order; "
         "own identity appended to the received path. Receive side: exactly the propagating TLVs of an accepted Announce are offered for forwarding; looped / over-long path traces.",
    note="Trusted: Kani/CBMC. Sizes scaled (MAX_DATA_LEN 1024 -> 128, all margins derive from it); statime-linux's TlvForwarder is modelled by the trait's documented contract.",
    ref="4/C15"),
 "C16": dict(
    technique="SMT (z3 + cvc5) over a symbolic execution of the rustc MIR, division-lemma encoding, native replay",
    text="Engine M: the MIR of Time/Duration/TimeInterval/WireTimestamp conversions and operators is executed symbolically (fixed-crate callees summarised over integers with explicit ranges); "
         "14 obligations over the full stated ranges are unsat in both solvers; the encoding is validated on 1100+ concrete cases against the compiled functions on every run.",
    note="Trusted: rustc MIR, the fixed/az summaries (validated differentially), z3, cvc5. Log-interval powers (f64::powi) are outside.",
    ref="4/C16"),
 "C17": dict(
    technique="Kani/CBMC with a lock implementation that asserts on nested acquisition",
    text="All port and BMCA harnesses run over DepthCell, a PtpInstanceStateMutex that fails the harness on any nested acquisition and counts sections; "
         "BMCA runs inside exactly one exclusive section. Thread interleavings are reduced to this discipline, not explored.",
    note="Trusted: Kani/CBMC, std RwLock's contract. Kani has no threads.",
    ref="4/C17"),
 "C18": dict(
    technique="SMT (z3 + cvc5) over the MIR of OverlayClock, f64 abstracted by reals, native replay",
    text="Engine M: continuity across set_frequency, exactness of step_clock, now() == reading of the underlying time, rate exact at 0 ppm and within fixed-point rounding otherwise, "
         "for every state in the stated ranges; counterexamples are replayed against the compiled clock.",
    note="Trusted: rustc MIR, summaries, z3/cvc5; ppm as a real number with round-to-nearest conversion.",
    ref="4/C18"),
}

import os as _os
_claimed_env = _os.environ.get("VERIF_CLAIM")
ACTIVE = (_claimed_env.split(",") if _claimed_env else
          [l.strip() for l in open(_os.path.join(VERIF, "tools", "claimed.txt")) if l.strip() and not l.startswith("#")])
CLAIMS = {k: v for k, v in CLAIMS.items() if k in ACTIVE}

NOT_APPLICABLE = {
 "C01": "convergence of several instances over many announce intervals: not an invariant of one step (no inductive per-step invariant implies global convergence), and a bounded unrolling is out of reach - one BMCA run of a two-port instance alone costs 6-15 min / 10 GB of CBMC, the property needs several instances times sixteen intervals",
 "C02": "closed-loop convergence of a floating-point Kalman servo over hundreds of steps; bit-precise f64 matrix algebra does not unroll (one command stage = 500 s of CBMC), and reals are not floats",
 "C19": "serde_json + fmt/String formatting + HTTP framing in a tokio binary: not encodable for a bit-precise solver; no MIR-level model of serde",
 "C20": "liveness of an async TCP accept loop under I/O faults: tokio runtime and kernel are not modellable by the engines available",
}

ALL = ["C%02d" % i for i in range(1, 21)]

def main():
    checks = []
    for pid in ALL:
        if pid not in CLAIMS:
            continue
        c = CLAIMS[pid]
        checks.append({
            "property_id": pid,
            "quick_cmd": "./vcheck %s --tier quick" % pid,
            "thorough_cmd": "./vcheck %s --tier thorough" % pid,
            "evidence_file": "evidence/%s.json" % pid,
            "replay_cmd_template": "./vcheck --replay {path}",
            "engine": "vcheck",
            "level_claimed": {"category": "model_checking", "text": c["text"], "design_ref": "DESIGN.md section " + c["ref"]},
            "level_note": c["note"],
            "technique": c["technique"],
        })
    na = []
    for pid in ALL:
        if pid in CLAIMS:
            continue
        reason = NOT_APPLICABLE.get(pid, "check not built yet in this session (planned, see DESIGN.md section 4); not claimed until its harnesses pass on the unchanged tree")
        na.append({"property_id": pid, "reason": reason})
    man = {
        "version": 1,
        "setup_cmd": "./tools/setup.sh",
        "hooks": {
            "guard": "kani",
            "enable": "no source hooks in /repo: every check copies /repo's working tree to a scratch directory and appends `#[cfg(kani)] #[path=...] mod verif_*;` lines there (cfg(kani) is set by cargo-kani itself)",
            "baseline_off_cmd": "cd /repo && cargo test --workspace --no-fail-fast --offline",
            "source_commits": [],
            "add_only": True,
        },
        "engines": [
            {"name": "vcheck", "path": "vcheck", "serves_properties": sorted(CLAIMS),
             "kind_free_text": "driver: overlay of /repo working tree -> Kani/CBMC harnesses (engine K) and MIR->SMT obligations (engine M) -> replay -> evidence"},
        ],
        "checks": checks,
        "not_applicable": na,
        "notes": "Solver-based checking only. Exit 0 = all deciding obligations discharged; 1 = replayed violation; 2 = inconclusive (timeout/OOM/tool failure), never reported as success.",
    }
    with open(os.path.join(VERIF, "MANIFEST.json"), "w") as fh:
        json.dump(man, fh, indent=1)
        fh.write("\n")

if __name__ == "__main__":
    main()
