#!/usr/bin/env python3
"""Regenerates MANIFEST.json from the table below (single source of truth for claims)."""
import json, os, sys
VERIF = os.path.dirname(os.path.dirname(os.path.abspath(__file__)))

K = "bounded model checking of the compiled crate (Kani 0.68 / CBMC 6.11, in-crate harnesses over kani::any(), unwinding assertions on)"
M = "SMT (z3 4.8.12 + cvc5 1.0) over a symbolic execution of the rustc MIR of the listed functions, `fixed` operations summarised"

CLAIMS = {
 "C05": dict(
    technique="Kani/CBMC differential harnesses against a reference BMCA (symbolic data sets)",
    text="Bounded model checking (SAT verdict over every value of the symbolic inputs inside the stated bounds) of the real "
         "dataset comparison, state decision and BMCA application code against an independently written reference of "
         "Figures 33-35; see DESIGN.md 4/C05 for layers and bounds.",
    note="Trusted: Kani/CBMC, the reference transcription of the standard's figures in harness/root/refbmca.rs; "
         "foreign-master list contents are abstracted (one qualified candidate per port via a stub of take_best_port_announce_message).",
    ref="4/C05"),
}

NOT_APPLICABLE = {
 "C01": "multi-instance, multi-interval convergence; needs the foreign-master lists and timers over time - beyond any bounded unrolling CBMC can carry here (list operations alone time out) and there is no inductive per-step invariant that implies global convergence",
 "C02": "closed-loop convergence of a floating-point Kalman servo over hundreds of steps; bit-precise f64 matrix algebra does not unroll (one command stage = 500 s of CBMC), and reals are not floats",
 "C06": "every operation that walks ForeignMasterList (nested ArrayVec of 13 KB moved by value) exceeds CBMC's reach (>7-20 min or >25 GB for 1-2 operations); only the stateless qualification predicate is decidable and is reported under C07",
 "C19": "serde_json + fmt/String formatting + HTTP framing in a tokio binary: not encodable for a bit-precise solver; no MIR-level model of serde",
 "C20": "liveness of an async TCP accept loop under I/O faults: tokio runtime and kernel are not modellable by the engines available",
}

ALL = ["C%02d" % i for i in range(1, 21)]

def main():
    checks = []
    for pid in ALL:
        if pid not in CLAIMS:
            continue
        c = CLAIMS[pid]
        checks.append({
            "property_id": pid,
            "quick_cmd": "./vcheck %s --tier quick" % pid,
            "thorough_cmd": "./vcheck %s --tier thorough" % pid,
            "evidence_file": "evidence/%s.json" % pid,
            "replay_cmd_template": "./vcheck --replay {path}",
            "engine": "vcheck",
            "level_claimed": {"category": "model_checking", "text": c["text"], "design_ref": "DESIGN.md section " + c["ref"]},
            "level_note": c["note"],
            "technique": c["technique"],
        })
    na = []
    for pid in ALL:
        if pid in CLAIMS:
            continue
        reason = NOT_APPLICABLE.get(pid, "check not built yet in this session (planned, see DESIGN.md section 4); not claimed until its harnesses pass on the unchanged tree")
        na.append({"property_id": pid, "reason": reason})
    man = {
        "version": 1,
        "setup_cmd": "./tools/setup.sh",
        "hooks": {
            "guard": "kani",
            "enable": "no source hooks in /repo: every check copies /repo's working tree to a scratch directory and appends `#[cfg(kani)] #[path=...] mod verif_*;` lines there (cfg(kani) is set by cargo-kani itself)",
            "baseline_off_cmd": "cd /repo && cargo test --workspace --no-fail-fast --offline",
            "source_commits": [],
            "add_only": True,
        },
        "engines": [
            {"name": "vcheck", "path": "vcheck", "serves_properties": sorted(CLAIMS),
             "kind_free_text": "driver: overlay of /repo working tree -> Kani/CBMC harnesses (engine K) and MIR->SMT obligations (engine M) -> replay -> evidence"},
        ],
        "checks": checks,
        "not_applicable": na,
        "notes": "Solver-based checking only. Exit 0 = all deciding obligations discharged; 1 = replayed violation; 2 = inconclusive (timeout/OOM/tool failure), never reported as success.",
    }
    with open(os.path.join(VERIF, "MANIFEST.json"), "w") as fh:
        json.dump(man, fh, indent=1)
        fh.write("\n")

if __name__ == "__main__":
    main()
