#!/usr/bin/env python3
"""validates MANIFEST.json and every evidence/<id>.json of a claimed property against the schemas in /root/.vp
(run with python3-vt: needs jsonschema)"""
import json, sys, os, jsonschema
V = os.path.dirname(os.path.dirname(os.path.abspath(__file__)))
man = json.load(open(os.path.join(V, "MANIFEST.json")))
jsonschema.validate(man, json.load(open("/root/.vp/MANIFEST.schema.json")))
es = json.load(open("/root/.vp/EVIDENCE.schema.json"))
bad = 0
for c in man["checks"]:
    p = os.path.join(V, c["evidence_file"])
    if not os.path.exists(p):
        print("MISSING", p); bad += 1; continue
    e = json.load(open(p))
    try:
        jsonschema.validate(e, es)
        print("ok  %s tier=%s obligations=%s discharged=%s distinct_nontrivial=%s violations=%s wall=%ss repo=%s" % (
            c["property_id"], e["tier"], e["coverage"].get("obligations"), e["coverage"].get("discharged"),
            e["coverage"].get("distinct_nontrivial"), e.get("violations"), int(e["wall_s"]), e["coverage"].get("repo")))
    except jsonschema.ValidationError as x:
        print("INVALID", p, x.message[:200]); bad += 1
sys.exit(1 if bad else 0)
