#!/bin/sh
# Nothing is pre-built: every check rebuilds from /repo's current working tree.
# This only verifies that the tools the checks need are present.
set -e
cargo kani --version
cbmc --version
z3 --version
cvc5 --version | head -1
python3 --version
rsync --version | head -1
test -x /usr/bin/time
mkdir -p "$(dirname "$0")/../evidence" "$(dirname "$0")/../replay"
echo setup-ok
