#!/bin/sh
# runs every claimed property's check in one pass (each harness / obligation once) and rewrites all evidence files;
# usage: tools/run_all.sh [quick|thorough]
cd "$(dirname "$0")/.."
./vcheck ALL --tier ${1:-quick} > /tmp/run_all.log 2>&1
rc=$?
grep -a "^\[vcheck\] C[0-9][0-9]:" /tmp/run_all.log
echo "exit=$rc"
exit $rc
