#!/bin/sh
# runs the quick check of every claimed property sequentially (evidence is rewritten by each run)
cd "$(dirname "$0")/.."
: > /tmp/run_all_summary.txt
for p in $(grep -v '^#' tools/claimed.txt); do
  start=$(date +%s)
  ./vcheck $p --tier ${1:-quick} > /tmp/run_all_$p.log 2>&1
  rc=$?
  echo "$p exit=$rc wall=$(( $(date +%s) - start ))s $(grep -a "^\[vcheck\] $p:" /tmp/run_all_$p.log | tail -1)" >> /tmp/run_all_summary.txt
done
