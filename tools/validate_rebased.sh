#!/bin/sh
# usage: tools/validate_rebased.sh <seed id>...   (scratch worktree /tmp/mut/rb at /repo HEAD)
# re-confirms a seeded change whose patch had to be rebased onto the repaired tree (patch_head.diff):
# suite passes with it, the demonstration fails with it and passes without it.
WT=/tmp/mut/rb
[ -d $WT ] || git -C /repo worktree add --detach $WT HEAD -q
cd $WT
export CARGO_NET_OFFLINE=true
t() { cargo test --workspace --no-fail-fast --offline 2>&1 | grep -a "^test result\|FAILED" | sort | uniq -c | tr '\n' ';'; }
for id in "$@"; do
  d=/verif/seeded/$id
  git checkout -q -- . ; git clean -fdq -e target
  git apply $d/patch_head.diff || { echo "$id: patch_head does not apply"; continue; }
  echo "$id suite+patch: $(t)"
  git apply $d/demo.diff 2>/dev/null || git apply -3 $d/demo.diff 2>/dev/null || patch -p1 -s < $d/demo.diff || { echo "$id: demo does not apply"; continue; }
  echo "$id demo+patch: $(t)"
  git apply -R $d/patch_head.diff || { echo "$id: cannot revert"; continue; }
  echo "$id demo-patch: $(t)"
done
git checkout -q -- . ; git clean -fdq -e target
