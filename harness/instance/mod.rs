//! Instance-level BMCA harnesses (child of `ptp_instance`): C05 layer 4, C08-2, C11-c, C12 (BMCA half).
#![allow(dead_code, unused_imports)]
use super::*;
use crate::bmc::bmca::verif_bmca::{best_age, best_identity, best_message};
use crate::bmc::bmca::{BestAnnounceMessage, RecommendedState};
use crate::datastructures::common::PortIdentity;
use crate::datastructures::messages::AnnounceMessage;
use crate::port::verif_port::common::*;
use crate::verif_root::gen::*;
use crate::verif_root::refbmca::*;

struct Cand {
    present: bool,
    eligible: bool, // takes part in Ebest: not master-only, not faulty
    ds: RefDs,
    age: Duration,
    msg: Option<AnnounceMessage>,
}

fn cand(b: Option<BestAnnounceMessage>, eligible: bool) -> Cand {
    match b {
        Some(b) => Cand { present: true, eligible, ds: ref_of_announce(best_message(&b), &best_identity(&b)), age: best_age(&b), msg: Some(*best_message(&b)) },
        None => Cand { present: false, eligible: false, ds: RefDs { p1: 0, class: 0, acc: 0, var: 0, p2: 0, gm: [0; 8], steps: 0, sender: [0; 8], recv_clock: [0; 8], recv_port: 0 }, age: Duration::ZERO, msg: None },
    }
}

/// a is strictly preferred to b (reference order, newer wins a tie)
fn better(a: &Cand, b: &Cand) -> bool {
    let o = ref_order(&a.ds, &b.ds);
    o > 0 || (o == 0 && a.age < b.age)
}

fn ref_of_default(d: &crate::datastructures::datasets::InternalDefaultDS) -> RefDs {
    RefDs { p1: d.priority_1, class: d.clock_quality.clock_class, acc: d.clock_quality.clock_accuracy.to_primitive(),
            var: d.clock_quality.offset_scaled_log_variance, p2: d.priority_2, gm: d.clock_identity.0, steps: 0,
            sender: d.clock_identity.0, recv_clock: d.clock_identity.0, recv_port: 0 }
}

/// Expected port state after applying decision `dec` (statime's documented rules: faulty ports only
/// change through the multiport rule, slave-only instances never hold a master port, a port that hears
/// a lower-numbered port of its own instance stays passive while that is fresh).
/// Returns (state code, new slave record created, timers requested: 0 none / 1 receipt+delay / 2 receipt / 3 announce+sync)
fn expected_port(pre: u8, pre_remote: Option<PortIdentity>, dec: u8, s1_remote: Option<PortIdentity>, slave_only: bool, multiport: bool) -> (u8, bool, u8) {
    match dec {
        DEC_NONE => (pre, false, 0),
        DEC_S1 => {
            if pre == ST_FAULTY { (pre, false, 0) }
            else if pre == ST_SLAVE && pre_remote == s1_remote { (ST_SLAVE, false, 0) }
            else { (ST_SLAVE, true, 1) }
        }
        DEC_M1 | DEC_M2 | DEC_M3 => {
            if slave_only {
                if pre == ST_LISTENING || pre == ST_FAULTY { (pre, false, 0) } else { (ST_LISTENING, false, 2) }
            } else if multiport {
                (ST_PASSIVE, false, 0)
            } else if pre == ST_MASTER || pre == ST_FAULTY {
                (pre, false, 0)
            } else {
                (ST_MASTER, false, 3)
            }
        }
        _ => {
            if pre == ST_PASSIVE || pre == ST_FAULTY { (pre, false, 0) } else { (ST_PASSIVE, false, 0) }
        }
    }
}

// @harness c05_bmca_one_port
// @props C05:quick C08:quick C11:quick C12:quick C03:thorough C17:quick
// @tier quick
// @variant lists2
// @stubbing yes
// @timeout 2400
// @mem 8
// @functions PtpInstanceState::bmca, Port::calculate_best_local_announce_message, Port::best_local_announce_message_for_bmca, Bmca::find_best_announce_message, Bmca::calculate_recommended_state, Port::set_recommended_state, Port::set_recommended_port_state, Port::set_forced_port_state, Port::step_announce_age
// @bounds single-port instance; own data set fully symbolic (priority1, class, accuracy, variance, priority2, slave-only); the port: arbitrary prior state (all five, Slave with arbitrary remote and slots), master-only flag, delay mechanism, multiport-disable age, and Erbest = none or one fully symbolic qualified Announce (all GM attributes, identities, stepsRemoved < 255, flags, utc offset, time source, age); BMCA interval 1 s, announce interval 1 s
// @assume Erbest of each port comes from the stub contract of take_best_port_announce_message (bmca/mod.rs: take_stub); the foreign-master list itself is outside the claim (C06)
// @assume core::mem::swap replaced by a loop-free equivalent (common.rs: swap_stub)
// @assume oracle: reference comparison/decision (refbmca.rs) + statime's documented port-state rules (expected_port); timePropertiesDS is not predicted for M1/M2 (the standard leaves it to the local time source)
// @note the one-port instance of c05_bmca_two_ports (thorough tier): Ebest = Erbest of the only port if it is eligible; decisions M1/M2/M3/P1/S1 and their data-set, state, timer and ageing consequences
#[kani::proof]
#[kani::unwind(9)]
#[kani::stub(crate::bmc::bmca::Bmca::take_best_port_announce_message, crate::bmc::bmca::verif_bmca::take_stub)]
#[kani::stub(core::mem::swap, crate::port::verif_port::common::swap_stub)]
fn c05_bmca_one_port() {
    let state = any_state(0);
    state.poke().default_ds.number_ports = 1;
    let mut c1 = PortCfg::any();
    c1.port_number = 1;
    let s1 = any_port_state(any_port_identity());
    let mut p1 = mk_inbmca(&state, c1, RecClock::quiet(), any_filter_cfg(), s1);
    set_multiport(&mut p1, if kani::any() { Some(any_duration_bits(64)) } else { None });
    let v1 = view(&p1);
    let pre_default = state.peek().default_ds;
    let pre_current = state.peek().current_ds;
    let pre_parent = state.peek().parent_ds.clone();
    let pre_tp = state.peek().time_properties_ds;
    let slave_only = pre_default.slave_only;
    let step = Duration::from_secs(1);
    {
        let mut ports = [&mut p1];
        state.with_mut(|s| s.bmca(&mut ports, step));
    }
    assert!(state.is_free() && state.mut_sections.get() == 1 && state.ref_sections.get() == 0, "C17: BMCA must run inside one exclusive section without re-locking");
    let e1 = cand(local_best(&p1), !c1.master_only && v1.code != ST_FAULTY);
    let ebest: u8 = if e1.eligible { 1 } else { 0 };
    let d0 = ref_of_default(&pre_default);
    let eb_ds = if ebest == 1 { Some(&e1.ds) } else { None };
    let dec1 = ref_decision(&d0, eb_ds, if e1.present { Some(&e1.ds) } else { None }, ebest == 1, v1.code == ST_LISTENING);
    let r1 = e1.msg.map(|m| m.header.source_port_identity);
    let x1 = expected_port(v1.code, v1.remote, dec1, r1, slave_only, v1.multiport.is_some());
    let w1 = view(&p1);
    assert!(w1.code == x1.0, "C05: port state after BMCA differs from the prescribed state");
    if w1.code == ST_SLAVE && dec1 == DEC_S1 { assert!(w1.remote == r1 && (!x1.1 || w1.slots_empty), "C05: slave port does not track the selected parent"); }
    if dec1 == DEC_S1 { assert!(ebest == 1 && !c1.master_only && v1.code != ST_FAULTY, "C08: S1 for a master-only or faulty port"); }
    if c1.master_only && v1.code != ST_SLAVE { assert!(w1.code != ST_SLAVE, "C08: master-only port became slave"); }
    if slave_only { assert!(w1.code != ST_MASTER || dec1 == DEC_NONE, "C08: slave-only instance kept a master port through a BMCA decision"); }
    let t1 = take_pending(&mut p1);
    let timers_ok = |x: (u8, bool, u8), t: &Drained| -> bool {
        match x.2 {
            0 => t.none(),
            1 => t.n == 2 && t.reset_receipt == 1 && t.reset_delay == 1 && t.dur_delay.as_secs() == 0,
            2 => t.n == 1 && t.reset_receipt == 1,
            _ => t.n == 2 && t.reset_announce == 1 && t.reset_sync == 1 && t.dur_announce.as_secs() == 0 && t.dur_sync.as_secs() == 0,
        }
    };
    assert!(timers_ok(x1, &t1), "C12: state change without the timers that keep the new state alive");
    let post = state.peek();
    assert!(post.default_ds == pre_default);
    if dec1 == DEC_S1 {
        let m = e1.msg.unwrap();
        assert!(post.current_ds.steps_removed == m.steps_removed + 1, "C05/C11: stepsRemoved != parent's + 1");
        assert!(post.parent_ds.parent_port_identity == m.header.source_port_identity
            && post.parent_ds.grandmaster_identity == m.grandmaster_identity
            && post.parent_ds.grandmaster_clock_quality == m.grandmaster_clock_quality
            && post.parent_ds.grandmaster_priority_1 == m.grandmaster_priority_1
            && post.parent_ds.grandmaster_priority_2 == m.grandmaster_priority_2, "C05/C11: parentDS != attributes announced by the selected parent");
        let tp = post.time_properties_ds;
        assert!(tp.current_utc_offset == (if m.header.current_utc_offset_valid { Some(m.current_utc_offset) } else { None })
            && tp.ptp_timescale == m.header.ptp_timescale && tp.time_traceable == m.header.time_tracable
            && tp.frequency_traceable == m.header.frequency_tracable && tp.time_source == m.time_source, "C05/C11: timePropertiesDS != parent's Announce");
    } else if dec1 == DEC_M1 || dec1 == DEC_M2 {
        assert!(post.current_ds.steps_removed == 0, "C05/C11: grandmaster must advertise stepsRemoved 0");
        assert!(post.parent_ds.parent_port_identity == PortIdentity { clock_identity: pre_default.clock_identity, port_number: 0 }
            && post.parent_ds.grandmaster_identity == pre_default.clock_identity
            && post.parent_ds.grandmaster_clock_quality == pre_default.clock_quality
            && post.parent_ds.grandmaster_priority_1 == pre_default.priority_1
            && post.parent_ds.grandmaster_priority_2 == pre_default.priority_2, "C05/C11: parentDS != own attributes while grandmaster");
        assert!(post.path_trace_ds.list.len() == 0);
    } else {
        assert!(post.current_ds == pre_current && post.parent_ds == pre_parent && post.time_properties_ds == pre_tp, "C05: data sets changed without an M1/M2/S1 decision");
    }
    assert!(w1.clock_cmds == 0);
    let aged = |pre: Option<Duration>| -> Option<Duration> {
        match pre { Some(a) => { let n = a + step; if n < Duration::from_secs(1) { Some(n) } else { None } } None => None }
    };
    assert!(w1.multiport == aged(v1.multiport), "C12: multiport-disable age not advanced by the BMCA interval / not cleared after one announce interval");
    kani::cover!(dec1 == DEC_S1 && w1.code == ST_SLAVE && v1.code != ST_SLAVE, "port becomes slave");
    kani::cover!(dec1 == DEC_M1, "low class: M1");
    kani::cover!(dec1 == DEC_M2 && w1.code == ST_MASTER, "grandmaster");
    kani::cover!(dec1 == DEC_P1, "passive beside a better low-class master");
    kani::cover!(slave_only && v1.code == ST_MASTER && w1.code == ST_LISTENING, "run-time slave-only demotes a master");
    kani::cover!(dec1 == DEC_NONE, "listening port without Erbest stays");
    core::mem::forget(p1);
}

// @harness c08_apply_recommendation
// @props C08:quick C05:quick C12:quick C03:thorough
// @tier quick
// @variant lists2
// @stubbing yes
// @timeout 1200
// @mem 8
// @functions Port::set_recommended_state, Port::set_recommended_port_state, Port::set_forced_port_state
// @bounds one port in an arbitrary prior state (all five, Slave with arbitrary remote and slots), master-only flag, delay mechanism, multiport-disable age; own data set fully symbolic (incl. slave-only); the recommendation is ANY of M1 / M2 / M3 / P1 / P2 / S1 (S1 only for a port that is not master-only - the decision harnesses show no other port receives it) carrying a fully symbolic Announce (stepsRemoved < 255); announce interval 1 s
// @assume core::mem::swap replaced by a loop-free equivalent (common.rs: swap_stub)
// @assume oracle: statime's documented port-state rules (expected_port), the same oracle as c05_bmca_one_port / c05_bmca_two_ports
// @note decouples the application of a decision from its computation: a one-port instance can never be handed M3 or P2 (they need an Ebest from another port), so the quick one-port BMCA harness does not reach those arms; here every arm is applied from every port state
#[kani::proof]
#[kani::unwind(9)]
#[kani::stub(core::mem::swap, crate::port::verif_port::common::swap_stub)]
fn c08_apply_recommendation() {
    let state = any_state(0);
    state.poke().default_ds.number_ports = 1;
    let mut c1 = PortCfg::any();
    c1.port_number = 1;
    let s1 = any_port_state(any_port_identity());
    let mut p1 = mk_inbmca(&state, c1, RecClock::quiet(), any_filter_cfg(), s1);
    set_multiport(&mut p1, if kani::any() { Some(any_duration_bits(64)) } else { None });
    let v1 = view(&p1);
    let pre_default = state.peek().default_ds;
    let pre_current = state.peek().current_ds;
    let pre_parent = state.peek().parent_ds.clone();
    let slave_only = pre_default.slave_only;
    let dec: u8 = kani::any();
    kani::assume(dec >= DEC_M1 && dec <= DEC_S1);
    kani::assume(dec != DEC_S1 || !c1.master_only);
    let m = any_announce();
    kani::assume(m.steps_removed < 255);
    let rec = match dec {
        DEC_M1 => RecommendedState::M1(pre_default),
        DEC_M2 => RecommendedState::M2(pre_default),
        DEC_M3 => RecommendedState::M3(m),
        DEC_P1 => RecommendedState::P1(m),
        DEC_P2 => RecommendedState::P2(m),
        _ => RecommendedState::S1(m),
    };
    state.with_mut(|s| {
        p1.set_recommended_state(rec, &mut s.path_trace_ds, &mut s.time_properties_ds, &mut s.current_ds, &mut s.parent_ds, &s.default_ds)
    });
    let r1 = Some(m.header.source_port_identity);
    let x1 = expected_port(v1.code, v1.remote, dec, r1, slave_only, v1.multiport.is_some());
    let w1 = view(&p1);
    assert!(w1.code == x1.0, "C05: port state after applying the recommendation differs from the prescribed state");
    if slave_only { assert!(w1.code != ST_MASTER, "C08: a port of a slave-only instance is master after a BMCA decision was applied"); }
    if c1.master_only && v1.code != ST_SLAVE { assert!(w1.code != ST_SLAVE, "C08: master-only port became slave"); }
    if w1.code == ST_SLAVE && dec == DEC_S1 { assert!(w1.remote == r1 && (!x1.1 || w1.slots_empty), "C05: slave port does not track the selected parent"); }
    if dec != DEC_S1 { assert!(w1.code != ST_SLAVE, "C08: port is slave after a decision other than S1"); }
    let t1 = take_pending(&mut p1);
    let ok = match x1.2 {
        0 => t1.none(),
        1 => t1.n == 2 && t1.reset_receipt == 1 && t1.reset_delay == 1 && t1.dur_delay.as_secs() == 0,
        2 => t1.n == 1 && t1.reset_receipt == 1,
        _ => t1.n == 2 && t1.reset_announce == 1 && t1.reset_sync == 1 && t1.dur_announce.as_secs() == 0 && t1.dur_sync.as_secs() == 0,
    };
    assert!(ok, "C12: state change without the timers that keep the new state alive");
    let post = state.peek();
    assert!(post.default_ds == pre_default);
    if dec == DEC_M3 || dec == DEC_P1 || dec == DEC_P2 {
        assert!(post.current_ds == pre_current && post.parent_ds == pre_parent, "C05: data sets changed without an M1/M2/S1 decision");
    }
    assert!(w1.clock_cmds == 0);
    kani::cover!(dec == DEC_M3 && slave_only && v1.code == ST_MASTER && w1.code == ST_LISTENING, "M3 demotes the master port of a slave-only instance");
    kani::cover!(dec == DEC_M3 && !slave_only && w1.code == ST_MASTER && v1.code != ST_MASTER, "M3 makes a master");
    kani::cover!(dec == DEC_P2 && w1.code == ST_PASSIVE && v1.code == ST_MASTER, "P2 makes a master passive");
    kani::cover!(dec == DEC_S1 && w1.code == ST_SLAVE && v1.code != ST_SLAVE, "S1 makes a slave");
    core::mem::forget(p1);
}

// @harness c05_bmca_two_ports
// @props C05:thorough C08:thorough C11:thorough C12:thorough C03:thorough C17:thorough
// @tier quick
// @variant lists2
// @stubbing yes
// @timeout 2400
// @mem 16
// @functions PtpInstanceState::bmca, Port::calculate_best_local_announce_message, Port::best_local_announce_message_for_bmca, Bmca::find_best_announce_message, Bmca::calculate_recommended_state, Port::set_recommended_state, Port::set_recommended_port_state, Port::set_forced_port_state, Port::step_announce_age
// @bounds two ports of one instance; own data set fully symbolic (priority1, class, accuracy, variance, priority2, slave-only); per port: arbitrary prior state (all five, Slave with arbitrary remote and slots), master-only flag, delay mechanism, multiport-disable age, and Erbest = none or one fully symbolic qualified Announce (all GM attributes, identities, stepsRemoved < 255, flags, utc offset, time source, age); BMCA interval 1 s, announce interval 1 s
// @assume Erbest of each port comes from the stub contract of take_best_port_announce_message (bmca/mod.rs: take_stub); the foreign-master list itself is outside the claim (C06)
// @assume core::mem::swap replaced by a loop-free equivalent (common.rs: swap_stub)
// @assume oracle: reference comparison/decision (refbmca.rs) + statime's documented port-state rules (expected_port); timePropertiesDS is not predicted for M1/M2 (the standard leaves it to the local time source)
// @note port-order independence: the oracle is symmetric in the ports and the candidate data of port 1 and port 2 range over the same symbolic domain, so agreement with the oracle for all assignments implies the outcome does not depend on presentation order
#[kani::proof]
#[kani::unwind(9)]
#[kani::stub(crate::bmc::bmca::Bmca::take_best_port_announce_message, crate::bmc::bmca::verif_bmca::take_stub)]
#[kani::stub(core::mem::swap, crate::port::verif_port::common::swap_stub)]
fn c05_bmca_two_ports() {
    let state = any_state(0);
    state.poke().default_ds.number_ports = 2;
    let mut c1 = PortCfg::any();
    c1.port_number = 1;
    let mut c2 = PortCfg::any();
    c2.port_number = 2;
    let s1 = any_port_state(any_port_identity());
    let s2 = any_port_state(any_port_identity());
    let mut p1 = mk_inbmca(&state, c1, RecClock::quiet(), any_filter_cfg(), s1);
    let mut p2 = mk_inbmca(&state, c2, RecClock::quiet(), any_filter_cfg(), s2);
    set_multiport(&mut p1, if kani::any() { Some(any_duration_bits(64)) } else { None });
    set_multiport(&mut p2, if kani::any() { Some(any_duration_bits(64)) } else { None });
    let v1 = view(&p1);
    let v2 = view(&p2);
    let pre_default = state.peek().default_ds;
    let pre_current = state.peek().current_ds;
    let pre_parent = state.peek().parent_ds.clone();
    let pre_tp = state.peek().time_properties_ds;
    let slave_only = pre_default.slave_only;
    let step = Duration::from_secs(1);
    {
        let mut ports = [&mut p1, &mut p2];
        state.with_mut(|s| s.bmca(&mut ports, step));
    }
    assert!(state.is_free() && state.mut_sections.get() == 1 && state.ref_sections.get() == 0, "C17: BMCA must run inside one exclusive section without re-locking");
    let e1 = cand(local_best(&p1), !c1.master_only && v1.code != ST_FAULTY);
    let e2 = cand(local_best(&p2), !c2.master_only && v2.code != ST_FAULTY);
    // Ebest by the reference: the preferred one among the eligible candidates (no ties across ports:
    // receivers differ in port number and a sender is never the receiving clock)
    let ebest: u8 = if e1.eligible && e2.eligible { if better(&e2, &e1) { 2 } else { 1 } } else if e1.eligible { 1 } else if e2.eligible { 2 } else { 0 };
    let d0 = ref_of_default(&pre_default);
    let eb_ds = if ebest == 1 { Some(&e1.ds) } else if ebest == 2 { Some(&e2.ds) } else { None };
    let dec1 = ref_decision(&d0, eb_ds, if e1.present { Some(&e1.ds) } else { None }, ebest == 1, v1.code == ST_LISTENING);
    let dec2 = ref_decision(&d0, eb_ds, if e2.present { Some(&e2.ds) } else { None }, ebest == 2, v2.code == ST_LISTENING);
    let r1 = e1.msg.map(|m| m.header.source_port_identity);
    let r2 = e2.msg.map(|m| m.header.source_port_identity);
    let x1 = expected_port(v1.code, v1.remote, dec1, r1, slave_only, v1.multiport.is_some());
    let x2 = expected_port(v2.code, v2.remote, dec2, r2, slave_only, v2.multiport.is_some());
    let w1 = view(&p1);
    let w2 = view(&p2);
    assert!(w1.code == x1.0 && w2.code == x2.0, "C05: port state after BMCA differs from the prescribed state");
    if w1.code == ST_SLAVE && dec1 == DEC_S1 { assert!(w1.remote == r1 && (!x1.1 || w1.slots_empty), "C05: slave port does not track the selected parent"); }
    if w2.code == ST_SLAVE && dec2 == DEC_S1 { assert!(w2.remote == r2 && (!x2.1 || w2.slots_empty), "C05: slave port does not track the selected parent"); }
    // C08: roles
    assert!(!(w1.code == ST_SLAVE && w2.code == ST_SLAVE && dec1 == DEC_S1 && dec2 == DEC_S1), "C08: two ports decided slave in one BMCA run");
    if dec1 == DEC_S1 || dec2 == DEC_S1 {
        // at most one S1 per run, never for a master-only or faulty port, and it is the port that received Ebest
        assert!(!(dec1 == DEC_S1 && dec2 == DEC_S1));
        assert!(if dec1 == DEC_S1 { ebest == 1 && !c1.master_only && v1.code != ST_FAULTY } else { ebest == 2 && !c2.master_only && v2.code != ST_FAULTY });
    }
    if c1.master_only && v1.code != ST_SLAVE { assert!(w1.code != ST_SLAVE, "C08: master-only port became slave"); }
    if c2.master_only && v2.code != ST_SLAVE { assert!(w2.code != ST_SLAVE, "C08: master-only port became slave"); }
    if slave_only { assert!(w1.code != ST_MASTER || dec1 == DEC_NONE, "C08: slave-only instance kept a master port through a BMCA decision"); assert!(w2.code != ST_MASTER || dec2 == DEC_NONE); }
    // the selected parent is not worse than any other eligible candidate
    if dec1 == DEC_S1 && e2.eligible { assert!(!better(&e2, &e1), "C05: selected parent is worse than another qualified candidate"); }
    if dec2 == DEC_S1 && e1.eligible { assert!(!better(&e1, &e2), "C05: selected parent is worse than another qualified candidate"); }
    // C12: timers requested with every state change (the host arms what end_bmca returns)
    let t1 = take_pending(&mut p1);
    let t2 = take_pending(&mut p2);
    let timers_ok = |x: (u8, bool, u8), t: &Drained| -> bool {
        match x.2 {
            0 => t.none(),
            1 => t.n == 2 && t.reset_receipt == 1 && t.reset_delay == 1 && t.dur_delay.as_secs() == 0 /* the code uses the const Duration::ZERO, whose sub-second field Kani 0.68 does not model faithfully; the seconds are compared */,
            2 => t.n == 1 && t.reset_receipt == 1,
            _ => t.n == 2 && t.reset_announce == 1 && t.reset_sync == 1 && t.dur_announce.as_secs() == 0 && t.dur_sync.as_secs() == 0,
        }
    };
    assert!(timers_ok(x1, &t1) && timers_ok(x2, &t2), "C12: state change without the timers that keep the new state alive");
    // data sets (Table 30-33)
    let post = state.peek();
    assert!(post.default_ds == pre_default);
    let s1dec = dec1 == DEC_S1 || dec2 == DEC_S1;
    let m12 = dec1 == DEC_M1 || dec1 == DEC_M2 || dec2 == DEC_M1 || dec2 == DEC_M2;
    if s1dec {
        let m = if dec1 == DEC_S1 { e1.msg.unwrap() } else { e2.msg.unwrap() };
        assert!(post.current_ds.steps_removed == m.steps_removed + 1, "C05/C11: stepsRemoved != parent's + 1");
        assert!(post.parent_ds.parent_port_identity == m.header.source_port_identity
            && post.parent_ds.grandmaster_identity == m.grandmaster_identity
            && post.parent_ds.grandmaster_clock_quality == m.grandmaster_clock_quality
            && post.parent_ds.grandmaster_priority_1 == m.grandmaster_priority_1
            && post.parent_ds.grandmaster_priority_2 == m.grandmaster_priority_2, "C05/C11: parentDS != attributes announced by the selected parent");
        let tp = post.time_properties_ds;
        assert!(tp.current_utc_offset == (if m.header.current_utc_offset_valid { Some(m.current_utc_offset) } else { None })
            && tp.ptp_timescale == m.header.ptp_timescale && tp.time_traceable == m.header.time_tracable
            && tp.frequency_traceable == m.header.frequency_tracable && tp.time_source == m.time_source, "C05/C11: timePropertiesDS != parent's Announce");
        assert!((tp.leap_indicator == crate::config::LeapIndicator::Leap59) == m.header.leap59);
        assert!((tp.leap_indicator == crate::config::LeapIndicator::Leap61) == (m.header.leap61 && !m.header.leap59));
    } else if m12 {
        assert!(post.current_ds.steps_removed == 0, "C05/C11: grandmaster must advertise stepsRemoved 0");
        assert!(post.parent_ds.parent_port_identity == PortIdentity { clock_identity: pre_default.clock_identity, port_number: 0 }
            && post.parent_ds.grandmaster_identity == pre_default.clock_identity
            && post.parent_ds.grandmaster_clock_quality == pre_default.clock_quality
            && post.parent_ds.grandmaster_priority_1 == pre_default.priority_1
            && post.parent_ds.grandmaster_priority_2 == pre_default.priority_2, "C05/C11: parentDS != own attributes while grandmaster");
        assert!(post.path_trace_ds.list.len() == 0);
    } else {
        assert!(post.current_ds == pre_current && post.parent_ds == pre_parent && post.time_properties_ds == pre_tp, "C05: data sets changed without an M1/M2/S1 decision");
    }
    // C08-4: BMCA itself never steers; leaving slave/faulty demobilises the filter exactly once per port
    assert!(w1.clock_cmds == 0 && w2.clock_cmds == 0);
    // multiport-disable ageing
    let aged = |pre: Option<Duration>, forced: bool| -> Option<Duration> {
        match pre { Some(a) => { let n = a + step; if n < Duration::from_secs(1) { Some(n) } else { None } } None => None }
    };
    assert!(w1.multiport == aged(v1.multiport, false) && w2.multiport == aged(v2.multiport, false));
    kani::cover!(dec1 == DEC_S1 && w1.code == ST_SLAVE && v1.code != ST_SLAVE, "port 1 becomes slave");
    kani::cover!(dec2 == DEC_S1 && dec1 == DEC_P2, "port 2 slave, port 1 passive by topology");
    kani::cover!(dec1 == DEC_M3 && dec2 == DEC_S1, "port 1 master (M3) beside slave port 2");
    kani::cover!(dec1 == DEC_M1 && dec2 == DEC_P1, "low class: M1 and P1");
    kani::cover!(dec1 == DEC_M2 && dec2 == DEC_M2 && w1.code == ST_MASTER, "grandmaster");
    kani::cover!(slave_only && v1.code == ST_MASTER && w1.code == ST_LISTENING, "run-time slave-only demotes a master");
    kani::cover!(dec1 == DEC_NONE, "listening port without Erbest stays");
    core::mem::forget(p1);
    core::mem::forget(p2);
}

// @harness c12_new_port_base_case
// @props C12:quick C03:thorough C17:quick
// @tier quick
// @variant lists2
// @stubbing yes
// @timeout 1200
// @mem 10
// @functions PtpInstance::new, PtpInstance::add_port, Port::new, Bmca::new, Port::end_bmca
// @bounds the real construction path for an instance with symbolic priorities / quality / slave-only flag and a port with symbolic delay mechanism, master-only flag and receipt timeout; intervals 2^0 s
// @assume Interval::as_core_duration / Duration::mul_f64 stubs as in c12_announce_receipt_timer
// @note base case of the C12 / C08 invariants: a new port is LISTENING with its announce receipt timer requested, nothing is sent, the lock is free
#[kani::proof]
#[kani::unwind(9)]
#[kani::stub(crate::time::Interval::as_core_duration, crate::verif_root::stubs::as_core_duration_int)]
#[kani::stub(core::time::Duration::mul_f64, crate::verif_root::stubs::mul_f64_contract)]
fn c12_new_port_base_case() {
    use crate::config::{DelayMechanism, InstanceConfig, PortConfig, PtpMinorVersion};
    use crate::time::Interval;
    let cfg = InstanceConfig {
        clock_identity: OWN_CLOCK,
        priority_1: kani::any(),
        priority_2: kani::any(),
        domain_number: kani::any(),
        slave_only: kani::any(),
        sdo_id: Default::default(),
        path_trace: kani::any(),
        clock_quality: any_quality(),
    };
    let inst: PtpInstance<RecFilter, DepthCell> = PtpInstance::new(cfg, any_time_properties());
    let iv = Interval::from_log_2(0);
    let timeout: u8 = kani::any();
    let pc = PortConfig {
        acceptable_master_list: AcceptTwo::any(),
        delay_mechanism: if kani::any() { DelayMechanism::P2P { interval: iv } } else { DelayMechanism::E2E { interval: iv } },
        announce_interval: iv,
        announce_receipt_timeout: timeout,
        sync_interval: iv,
        master_only: kani::any(),
        delay_asymmetry: Duration::ZERO,
        minor_ptp_version: PtpMinorVersion::One,
    };
    let port = inst.add_port(pc, any_filter_cfg(), RecClock::quiet(), StubRng(0x8000_0000_0000_0000));
    let (running, actions) = port.end_bmca();
    let (d, _) = drain(actions);
    let v = view(&running);
    assert!(v.code == ST_LISTENING, "a new port starts in LISTENING");
    assert!(d.n == 1 && d.reset_receipt == 1, "C12: a new (listening) port must request its announce receipt timer");
    let base = 1_000_000_000u128 * timeout as u128;
    assert!(d.dur_receipt.as_nanos() + 1 >= base && d.dur_receipt.as_nanos() <= 2 * base + 1, "C12: receipt timeout outside timeout * interval * [1, 2]");
    assert!(inst.state.is_free() && inst.state.peek().default_ds.number_ports == 1);
    assert!(running.port_identity == PortIdentity { clock_identity: OWN_CLOCK, port_number: 1 });
    assert!(v.clock_cmds == 0 && v.filter_count == 0);
    kani::cover!(timeout == 3, "default receipt timeout");
    core::mem::forget(running);
}
