//! TLV set builder: recording replacement for `TlvSetBuilder::add` (used via #[kani::stub] by the
//! forwarding harnesses in harness/port/c11.rs) and the stand-alone obligation that decides what the real
//! `add` / `build` put into the buffer.
//!
//! Why: with a symbolic TLV sequence the real `add` is two 2-octet copies plus a `copy_from_slice` whose
//! length depends on the path taken; `send_announce` then hands the buffer to `Message::serialize` and the
//! oracle would have to read the octets back. That composition exceeds 30 GB in CBMC (measured: every
//! c15_forward_* harness with the real builder). The same assume-guarantee split as for
//! `Message::serialize` applies: the handler harnesses decide *which TLVs, in which order, with which
//! accounted size* `send_announce` hands to the builder and that the built suffix has exactly the accounted
//! length; `c15_tlv_builder_readback` decides that the real builder stores exactly those TLVs, in order,
//! so that the library's own iterator reads them back unchanged.
use super::*;

pub(crate) static mut ADD_COUNT: usize = 0;
/// (type, value length, address of the value, first value octet) of the first three TLVs added
pub(crate) static mut ADD_TLV: [(u16, usize, usize, u8); 3] = [(0, 0, 0, 0); 3];
pub(crate) static mut ADD_CAP: usize = 0;

pub(crate) fn add_rec<'a, 'b>(b: &mut TlvSetBuilder<'a>, tlv: Tlv<'b>) -> Result<(), WireFormatError>
where
    'a: 'a,
{
    let n = tlv.wire_size();
    // the real function panics (slice indexing in Tlv::serialize) exactly when the TLV does not fit
    assert!(b.buffer.len() - b.used >= n, "TlvSetBuilder::add: TLV larger than the remaining buffer (Tlv::serialize panics)");
    unsafe {
        if ADD_COUNT < 3 {
            let v: &[u8] = tlv.value.as_ref();
            ADD_TLV[ADD_COUNT] = (tlv.tlv_type.to_primitive(), v.len(), v.as_ptr() as usize, if v.len() > 0 { v[0] } else { 0 });
        }
        ADD_COUNT += 1;
        ADD_CAP = b.buffer.len();
    }
    b.used += n;
    Ok(())
}

pub(crate) fn add_count() -> usize { unsafe { ADD_COUNT } }
pub(crate) fn add_tlv(k: usize) -> (u16, usize, usize, u8) { unsafe { ADD_TLV[k] } }
pub(crate) fn add_cap() -> usize { unsafe { ADD_CAP } }

// @harness c15_tlv_builder_readback
// @props C15:quick C04:quick C03:quick
// @tier quick
// @features none
// @timeout 900
// @functions TlvSetBuilder::new, TlvSetBuilder::add, TlvSetBuilder::build, Tlv::serialize, Tlv::wire_size, TlvSet::wire_size, TlvSet::tlv, TlvSetIterator::next, Tlv::deserialize
// @bounds two TLVs with arbitrary 16-bit types and arbitrary even value lengths 0..=8 (arbitrary value octets; the last TLV at least 2) added to a 32-octet buffer; second one optional
// @note guarantee side of the add_rec stub: the built set has length sum(4 + len), and the iterator yields exactly the added TLVs in order; odd lengths are outside (the receive side rejects them, c04_*_decode)
#[kani::proof]
#[kani::unwind(10)]
fn c15_tlv_builder_readback() {
    let v0: [u8; 8] = kani::any();
    let v1: [u8; 8] = kani::any();
    let l0: usize = kani::any();
    let l1: usize = kani::any();
    kani::assume(l0 <= 8 && l0 % 2 == 0 && l1 <= 8 && l1 % 2 == 0);
    let t0: u16 = kani::any();
    let t1: u16 = kani::any();
    let two: bool = kani::any();
    // a zero-length *last* TLV is outside: the library's iterator does not yield a trailing 4-octet TLV (D7, DESIGN §6)
    kani::assume(if two { l1 >= 2 } else { l0 >= 2 });
    let mut buf = [0u8; 32];
    let mut b = TlvSetBuilder::new(&mut buf);
    assert!(b.add(Tlv { tlv_type: TlvType::from_primitive(t0), value: (&v0[..l0]).into() }).is_ok());
    if two {
        assert!(b.add(Tlv { tlv_type: TlvType::from_primitive(t1), value: (&v1[..l1]).into() }).is_ok());
    }
    let set = b.build();
    let want = 4 + l0 + if two { 4 + l1 } else { 0 };
    assert!(set.wire_size() == want, "C15: built TLV set length differs from the sum of the TLV sizes");
    let mut it = set.tlv();
    let a = it.next().unwrap();
    let av: &[u8] = a.value.as_ref();
    assert!(a.tlv_type.to_primitive() == t0 && av.len() == l0, "C15: first TLV type / length changed by the builder");
    let mut i = 0;
    while i < 8 {
        if i < l0 { assert!(av[i] == v0[i], "C15: first TLV value changed by the builder"); }
        i += 1;
    }
    if two {
        let c = it.next().unwrap();
        let cv: &[u8] = c.value.as_ref();
        assert!(c.tlv_type.to_primitive() == t1 && cv.len() == l1, "C15: second TLV type / length changed by the builder");
        let mut i = 0;
        while i < 8 {
            if i < l1 { assert!(cv[i] == v1[i], "C15: second TLV value changed by the builder"); }
            i += 1;
        }
    }
    assert!(it.next().is_none(), "C15: builder produced extra TLVs");
    kani::cover!(two && l0 == 8 && l1 == 8, "two full TLVs");
    kani::cover!(two && l0 == 0, "empty TLV followed by another");
}
