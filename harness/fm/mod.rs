//! Foreign-master record level helpers and harnesses (child of `bmc::foreign_master`).
#![allow(dead_code, unused_imports)]
use super::*;

/// number of foreign masters recorded
pub(crate) fn list_len(l: &ForeignMasterList) -> usize {
    l.foreign_masters.len()
}

/// total number of stored announce messages (sum over the first two records; lists are scaled to
/// capacity 2 in the port harnesses, and empty in their pre-states)
pub(crate) fn list_messages(l: &ForeignMasterList) -> usize {
    let mut n = 0;
    if l.foreign_masters.len() > 0 { n += l.foreign_masters[0].announce_messages.len(); }
    if l.foreign_masters.len() > 1 { n += l.foreign_masters[1].announce_messages.len(); }
    n
}
