//! Foreign-master record level helpers and harnesses (child of `bmc::foreign_master`).
#![allow(dead_code, unused_imports)]
use super::*;
use crate::datastructures::common::ClockIdentity;

/// number of foreign masters recorded
pub(crate) fn list_len(l: &ForeignMasterList) -> usize {
    l.foreign_masters.len()
}

/// total number of stored announce messages (sum over the first two records; lists are scaled to
/// capacity 2 in the port harnesses, and empty in their pre-states)
pub(crate) fn list_messages(l: &ForeignMasterList) -> usize {
    let mut n = 0;
    if l.foreign_masters.len() > 0 { n += l.foreign_masters[0].announce_messages.len(); }
    if l.foreign_masters.len() > 1 { n += l.foreign_masters[1].announce_messages.len(); }
    n
}

// ================================================================================================
// Recording replacement for `ForeignMasterList::register_announce_message` (used via #[kani::stub] by
// the Announce-receive harnesses in harness/port): the list lives inside `Port`, and writing a 400-octet
// record into a field of that struct is the same CBMC pathology as the packet buffer (DESIGN 8.1).
// What the real function does with a registration is decided on a stand-alone list below.
// ================================================================================================
pub(crate) static mut REG_COUNT: u32 = 0;
pub(crate) static mut REG_LAST: Option<(Header, AnnounceMessage, Duration)> = None;

pub(crate) fn register_rec(_l: &mut ForeignMasterList, header: &Header, m: &AnnounceMessage, age: Duration) {
    unsafe {
        REG_COUNT += 1;
        REG_LAST = Some((*header, *m, age));
    }
}

pub(crate) fn reg_count() -> u32 { unsafe { REG_COUNT } }
pub(crate) fn reg_last() -> Option<(Header, AnnounceMessage, Duration)> { unsafe { REG_LAST } }

use crate::verif_root::gen::*;

pub(crate) fn ti_one_second() -> TimeInterval {
    TimeInterval(fixed::types::I48F16::from_num(1_000_000_000i64))
}

// @harness c07_foreign_master_registration
// @props C07:quick C03:quick C11:thorough
// @tier quick
// @variant lists2
// @timeout 1200
// @mem 4
// @functions ForeignMasterList::new, ForeignMasterList::register_announce_message, ForeignMasterList::is_announce_message_qualified, ForeignMaster::new, ForeignMasterList::get_foreign_master
// @bounds stand-alone list (capacities scaled 8 -> 2), first registration of a fully symbolic Announce with any age, then the qualification verdict for a second fully symbolic Announce
// @note the C06 fragment that is decidable: own clock identity and stepsRemoved >= 255 never enter the list; a newer sequence id (window of 2^15, across the 65535 -> 0 wrap) is required from a known master. Threshold, ageing and expiry (list walks) are outside (C06 is not applicable).
#[kani::proof]
#[kani::unwind(9)]
fn c07_foreign_master_registration() {
    let own = any_port_identity();
    let mut l = ForeignMasterList::new(ti_one_second(), own);
    let m1 = any_announce();
    let age = any_duration_bits(64);
    l.register_announce_message(&m1.header, &m1, age);
    let q1 = m1.header.source_port_identity.clock_identity != own.clock_identity && m1.steps_removed < 255;
    assert!(list_len(&l) == (q1 as usize), "announce of the own clock / with stepsRemoved >= 255 was recorded (or a qualified one was not)");
    if q1 {
        assert!(l.foreign_masters[0].foreign_master_port_identity == m1.header.source_port_identity);
        assert!(l.foreign_masters[0].announce_messages.len() == 1 && l.foreign_masters[0].announce_messages[0].message == m1);
    }
    let m2 = any_announce();
    let got = l.is_announce_message_qualified(&m2);
    let src2 = m2.header.source_port_identity;
    let newer = !(q1 && src2 == m1.header.source_port_identity) || m2.header.sequence_id.wrapping_sub(m1.header.sequence_id) < 32767;
    let want = src2.clock_identity != own.clock_identity && m2.steps_removed < 255 && newer;
    assert!(got == want, "qualification predicate differs from: not own clock, stepsRemoved < 255, newer sequence id");
    kani::cover!(q1 && got && src2 == m1.header.source_port_identity && m2.header.sequence_id < m1.header.sequence_id, "sequence wrap-around accepted");
    kani::cover!(q1 && !got && src2 == m1.header.source_port_identity && src2.clock_identity != own.clock_identity && m2.steps_removed < 255, "stale sequence id rejected");
    core::mem::forget(l);
}

fn plain_announce(port_number: u16, seq: u16) -> AnnounceMessage {
    let mut h = Header::new(1);
    h.source_port_identity = PortIdentity { clock_identity: ClockIdentity([9, 9, 9, 9, 9, 9, 9, 9]), port_number };
    h.sequence_id = seq;
    AnnounceMessage {
        header: h,
        origin_timestamp: Default::default(),
        current_utc_offset: 37,
        grandmaster_priority_1: 128,
        grandmaster_clock_quality: Default::default(),
        grandmaster_priority_2: 128,
        grandmaster_identity: ClockIdentity([9, 9, 9, 9, 9, 9, 9, 9]),
        steps_removed: 0,
        time_source: Default::default(),
    }
}

// @harness c03_foreign_master_list_step_age
// @props C03:quick
// @tier quick
// @variant lists2
// @timeout 900
// @mem 5
// @functions ForeignMasterList::step_age, ForeignMaster::step_age, ForeignMaster::purge_old_messages, ArrayVec::remove, ArrayVec::retain
// @bounds stand-alone list with capacities scaled 8 -> 2 holding two masters with one concrete Announce each, symbolic ages (0 .. 2^35 ns), one ageing step of symbolic length (0 .. 2^35 ns); announce interval 1 s
// @note the walk-and-remove loop of the list: no panic (index arithmetic while removing), a master is dropped exactly when its only Announce is older than four intervals, survivors keep their order
#[kani::proof]
#[kani::unwind(6)]
fn c03_foreign_master_list_step_age() {
    let own = PortIdentity { clock_identity: ClockIdentity([1, 1, 1, 1, 1, 1, 1, 1]), port_number: 1 };
    let mut l = ForeignMasterList::new(ti_one_second(), own);
    let m1 = plain_announce(1, 10);
    let m2 = plain_announce(2, 20);
    let a1 = any_duration_bits(68);
    let a2 = any_duration_bits(68);
    kani::assume(a1 >= Duration::from_fixed_nanos(fixed::types::I96F32::from_bits(0)) && a2 >= Duration::from_fixed_nanos(fixed::types::I96F32::from_bits(0)));
    // the first Announce of a new master is stored with age zero whatever `age` says (ForeignMaster::new); the
    // ages are then set directly, as repeated step_age calls would have left them
    l.register_announce_message(&m1.header, &m1, a1);
    l.register_announce_message(&m2.header, &m2, a2);
    assert!(list_len(&l) == 2);
    l.foreign_masters[0].announce_messages[0].age = a1;
    l.foreign_masters[1].announce_messages[0].age = a2;
    kani::cover!(true, "two masters registered");
    let step = any_duration_bits(68);
    kani::assume(step >= Duration::from_fixed_nanos(fixed::types::I96F32::from_bits(0)));
    l.step_age(step);
    kani::cover!(true, "aged");
    let window = Duration::from_fixed_nanos(fixed::types::I96F32::from_bits(4_000_000_000i128 << 32));
    let keep1 = a1 + step < window;
    let keep2 = a2 + step < window;
    assert!(list_len(&l) == (keep1 as usize) + (keep2 as usize), "a master must be dropped exactly when its newest Announce is older than four announce intervals");
    if keep1 {
        assert!(l.foreign_masters[0].foreign_master_port_identity.port_number == 1, "survivors must keep their order");
    } else if keep2 {
        assert!(l.foreign_masters[0].foreign_master_port_identity.port_number == 2);
    }
    kani::cover!(!keep1 && keep2, "older master expires while the newer stays");
    kani::cover!(keep1 && !keep2, "second master expires first");
    kani::cover!(!keep1 && !keep2, "both expire");
    core::mem::forget(l);
}

// ================================================================================================
// C06 at list / record level: one operation from an arbitrary state (inductive step). The payload of the stored
// Announces is concrete (plain_announce); what the list logic depends on - which master, sequence ids, ages,
// stepsRemoved, own / foreign clock identity, record counts - is symbolic. Capacities are scaled 8 -> 2.
//
// Invariant assumed of the pre-state and asserted of the post-state: at most 2 records with distinct
// identities, none with the own clock identity, every record holds 1..=2 messages, every stored age is in
// [0, window) where window = 4 announce intervals (ages only change in step_age, which purges), and within a
// record a later message has a newer sequence id than the earlier one (difference mod 2^16 below 32767 - what
// admission requires; equal ids, i.e. a duplicated Announce, are admitted by the code and count as two).
//
// CBMC carries `ArrayVec::retain` / `remove` on the *messages of a record* only when the record stands alone
// (a record nested in the list: > 21 GB for one two-message record). So the family is split assume-guarantee:
//   record level  - the real ForeignMaster::{step_age, register_announce_message} on a stand-alone record;
//   list level    - the real ForeignMasterList::{step_age, register_announce_message, take_qualified_...}
//                   with the two record-level functions replaced by stubs that record their arguments and
//                   return / do exactly what the record-level harnesses prove of the real ones.
// ================================================================================================
const WINDOW_BITS: i128 = 4_000_000_000i128 << 32;

pub(crate) fn dur(bits: i128) -> Duration { Duration::from_fixed_nanos(fixed::types::I96F32::from_bits(bits)) }

pub(crate) fn own_identity() -> PortIdentity { PortIdentity { clock_identity: ClockIdentity([1, 1, 1, 1, 1, 1, 1, 1]), port_number: 1 } }

fn any_age() -> i128 {
    let a: i128 = kani::any();
    kani::assume(a >= 0 && a < WINDOW_BITS);
    a
}

/// stand-alone record of master `pn` with `c` messages (concrete count), symbolic ages / sequence ids
fn any_record(pn: u16, c: usize) -> (ForeignMaster, [i128; 2], [u16; 2]) {
    let age = [any_age(), any_age()];
    let seq: [u16; 2] = [kani::any(), kani::any()];
    let first = plain_announce(pn, seq[0]);
    let mut fm = ForeignMaster::new(first.header, first);
    fm.announce_messages[0].age = dur(age[0]);
    if c == 2 {
        // invariant: a later message was admitted after the earlier one, i.e. with a newer sequence id (mod 2^16)
        kani::assume(seq[1].wrapping_sub(seq[0]) < 32767);
        let second = plain_announce(pn, seq[1]);
        fm.announce_messages.push(ForeignAnnounceMessage { header: second.header, message: second, age: dur(age[1]) });
    }
    (fm, age, seq)
}

fn record_holds(r: &ForeignMaster, pn: u16, k: usize, seq: [u16; 2], age: [i128; 2]) -> bool {
    r.foreign_master_port_identity.port_number == pn
        && r.announce_messages.len() == k
        && (k < 1 || (r.announce_messages[0].header.sequence_id == seq[0] && r.announce_messages[0].age == dur(age[0])))
        && (k < 2 || (r.announce_messages[1].header.sequence_id == seq[1] && r.announce_messages[1].age == dur(age[1])))
}

/// `ArrayVec::retain` for vectors of at most two elements (the scaled capacity), element-wise by value.
/// arrayvec is a dependency, not statime code: its documented behaviour (keep exactly the elements the predicate
/// accepts, visited once each in order, order preserved) is trusted; its guard-based in-place implementation with a
/// data-dependent hole index is what CBMC cannot carry on 200-octet elements.
pub(crate) fn retain2<T, const CAP: usize, F>(v: &mut ArrayVec<T, CAP>, mut f: F)
where
    F: FnMut(&mut T) -> bool,
{
    let n = v.len();
    assert!(n <= 2, "retain2: stub is only valid for the scaled capacity");
    let e1 = if n == 2 { v.pop() } else { None };
    let e0 = if n >= 1 { v.pop() } else { None };
    if let Some(mut e) = e0 {
        if f(&mut e) { v.push(e) }
    }
    if let Some(mut e) = e1 {
        if f(&mut e) { v.push(e) }
    }
}

/// `ArrayVec::remove` for vectors of at most two elements: panics like the real one when out of bounds
pub(crate) fn remove2<T, const CAP: usize>(v: &mut ArrayVec<T, CAP>, index: usize) -> T {
    let n = v.len();
    assert!(n <= 2, "remove2: stub is only valid for the scaled capacity");
    assert!(index < n, "ArrayVec::remove: index is out of bounds");
    if index + 1 == n {
        v.pop().unwrap()
    } else {
        let e1 = v.pop().unwrap();
        let e0 = v.pop().unwrap();
        v.push(e1);
        e0
    }
}

fn record_step_case(c: usize) {
    let (mut r, age, seq) = any_record(7, c);
    let step: i128 = kani::any();
    kani::assume(step >= 0 && step < (1i128 << 68));
    let gone = r.step_age(dur(step), ti_one_second());
    let mut k = 0usize;
    let mut s2 = [0u16; 2];
    let mut a2 = [0i128; 2];
    let mut j = 0;
    while j < 2 {
        if j < c && age[j] + step < WINDOW_BITS {
            s2[k] = seq[j];
            a2[k] = age[j] + step;
            k += 1;
        }
        j += 1;
    }
    assert!(gone == (k == 0), "C06: record reports 'no messages left' wrongly");
    assert!(record_holds(&r, 7, k, s2, a2), "C06: surviving messages differ from (younger than four intervals, aged by exactly the step, in order)");
    kani::cover!(gone, "record expires");
    kani::cover!(!gone && k < c, "one of two messages purged");
    core::mem::forget(r);
}

// @harness c06_record_step_age
// @props C06:quick C03:quick
// @tier quick
// @variant lists2_rv
// @stubbing yes
// @timeout 1500
// @mem 4
// @functions ForeignMaster::step_age, ForeignMaster::purge_old_messages, ArrayVec::retain
// @bounds stand-alone record of one master holding 1 or 2 messages (both shapes) with any ages in [0, window) and any sequence ids; one step_age(step) with any step in [0, 2^36 ns); announce interval 1 s; message capacity scaled 8 -> 2
// @assume arrayvec::ArrayVec::retain (textually, at statime's call sites in the scratch copy: variant _rv) and ArrayVec::remove (#[kani::stub]) replaced by element-wise equivalents for at most two elements (retain2, remove2): the dependency's documented behaviour is trusted, statime's closure and call pattern are the real code
// @note expiry, record level: a message survives iff age + step < 4 announce intervals, with its age advanced by exactly step and the order kept; the function returns true iff nothing survives. This is the contract the list-level stub (fm_step_age_stub) implements.
#[kani::proof]
#[kani::unwind(6)]
#[kani::stub(arrayvec::ArrayVec::remove, crate::bmc::foreign_master::verif_fm::remove2)]
fn c06_record_step_age() {
    record_step_case(1);
    record_step_case(2);
}

fn record_register_case(c: usize) {
    let (mut r, age, seq) = any_record(7, c);
    let nseq: u16 = kani::any();
    let nage = any_age();
    let m = plain_announce(7, nseq);
    r.register_announce_message(m.header, m, ti_one_second(), dur(nage));
    if c == 1 {
        assert!(record_holds(&r, 7, 2, [seq[0], nseq], [age[0], nage]), "C06: Announce not appended to its master's record with the given age");
    } else {
        assert!(record_holds(&r, 7, 2, [seq[1], nseq], [age[1], nage]), "C06: a full record must evict its oldest message for the new one");
    }
    kani::cover!(true, "registered");
    core::mem::forget(r);
}

// @harness c06_record_register
// @props C06:quick C03:quick
// @tier quick
// @variant lists2_rv
// @stubbing yes
// @timeout 1500
// @mem 5
// @functions ForeignMaster::register_announce_message, ForeignMaster::purge_old_messages, ArrayVec::try_push, ArrayVec::remove, ArrayVec::push
// @bounds stand-alone record holding 1 or 2 messages (both shapes, ages in [0, window)); one register_announce_message with any sequence id and any age in [0, window); message capacity scaled 8 -> 2
// @assume arrayvec::ArrayVec::retain (textually, at statime's call sites in the scratch copy: variant _rv) and ArrayVec::remove (#[kani::stub]) replaced by element-wise equivalents for at most two elements (retain2, remove2): the dependency's documented behaviour is trusted, statime's closure and call pattern are the real code
// @note a message inside the window is never purged by a registration; the new message is appended with the given age, evicting the oldest when the record is full. Contract of the list-level stub fm_register_stub.
#[kani::proof]
#[kani::unwind(6)]
#[kani::stub(arrayvec::ArrayVec::remove, crate::bmc::foreign_master::verif_fm::remove2)]
fn c06_record_register() {
    record_register_case(1);
    record_register_case(2);
}

// ---- list level ---------------------------------------------------------------------------------
/// what the stubbed record-level step_age returns for master 1 / 2 (symbolic, fixed per harness run)
pub(crate) static mut FM_GONE: [bool; 2] = [false; 2];
pub(crate) static mut FM_STEP_CALLS: [u32; 2] = [0; 2];
pub(crate) static mut FM_STEP_ARG_OK: bool = true;
pub(crate) static mut FM_STEP_ARG: Option<Duration> = None;

/// record-level step_age as decided by c06_record_step_age: ages advance, old messages go, "true iff nothing left".
/// Here: leaves the record as it is (the list walk does not look inside) and returns the symbolic verdict.
pub(crate) fn fm_step_age_stub(r: &mut ForeignMaster, step: Duration, interval: TimeInterval) -> bool {
    let i = (r.foreign_master_port_identity.port_number - 1) as usize;
    unsafe {
        FM_STEP_CALLS[i] += 1;
        if FM_STEP_ARG != Some(step) || interval != ti_one_second() { FM_STEP_ARG_OK = false; }
        FM_GONE[i]
    }
}

pub(crate) static mut FM_REG_CALLS: u32 = 0;
pub(crate) static mut FM_REG: Option<(u16, u16, Duration, TimeInterval)> = None;

/// record-level registration as decided by c06_record_register: here only recorded (master, sequence id, age)
pub(crate) fn fm_register_stub(r: &mut ForeignMaster, header: Header, m: AnnounceMessage, interval: TimeInterval, age: Duration) {
    unsafe {
        FM_REG_CALLS += 1;
        FM_REG = Some((r.foreign_master_port_identity.port_number, header.sequence_id, age, interval));
    }
    let _ = m;
}

pub(crate) struct ListModel {
    pub(crate) n: usize,
    pub(crate) c: [usize; 2],
    pub(crate) age: [[i128; 2]; 2],
    pub(crate) seq: [[u16; 2]; 2],
}

/// every list shape within the scaled capacities: (records, messages per record)
pub(crate) const SHAPES: [(usize, [usize; 2]); 7] = [(0, [0, 0]), (1, [1, 0]), (1, [2, 0]), (2, [1, 1]), (2, [1, 2]), (2, [2, 1]), (2, [2, 2])];

/// list of the given (concrete) shape - `n` records holding `cs[i]` messages - with symbolic ages and sequence ids
pub(crate) fn any_list(own: PortIdentity, n: usize, cs: [usize; 2]) -> (ForeignMasterList, ListModel) {
    let mut l = ForeignMasterList::new(ti_one_second(), own);
    let mut m = ListModel { n, c: [0; 2], age: [[0; 2]; 2], seq: [[0; 2]; 2] };
    let mut i = 0;
    while i < 2 {
        if i < n {
            let (fm, age, seq) = any_record(1 + i as u16, cs[i]);
            m.c[i] = cs[i];
            m.age[i] = age;
            m.seq[i] = seq;
            l.foreign_masters.push(fm);
        }
        i += 1;
    }
    (l, m)
}

pub(crate) fn record_is(l: &ForeignMasterList, i: usize, pn: u16, k: usize, seq: [u16; 2], age: [i128; 2]) -> bool {
    record_holds(&l.foreign_masters[i], pn, k, seq, age)
}

fn step_age_case(n: usize, cs: [usize; 2]) {
    let (mut l, m) = any_list(own_identity(), n, cs);
    let step: i128 = kani::any();
    kani::assume(step >= 0 && step < (1i128 << 68));
    let gone: [bool; 2] = [kani::any(), kani::any()];
    unsafe {
        FM_GONE = gone;
        FM_STEP_CALLS = [0; 2];
        FM_STEP_ARG_OK = true;
        FM_STEP_ARG = Some(dur(step));
    }
    l.step_age(dur(step));
    let mut out = 0usize;
    let mut i = 0;
    while i < 2 {
        if i < m.n {
            assert!(unsafe { FM_STEP_CALLS[i] } == 1, "C06: every record must be aged exactly once per step");
            if !gone[i] {
                assert!(out < l.foreign_masters.len(), "C06: a master with a message inside the window was dropped");
                assert!(record_is(&l, out, 1 + i as u16, m.c[i], m.seq[i], m.age[i]), "C06: the walk disturbed a surviving record / changed the order of the records");
                out += 1;
            }
        }
        i += 1;
    }
    assert!(unsafe { FM_STEP_ARG_OK }, "C06: records aged by something else than the step / the port's announce interval");
    assert!(l.foreign_masters.len() == out, "C06: a master whose messages are all older than four announce intervals was kept");
    kani::cover!(out < m.n, "a record expires");
    kani::cover!(m.n > 0 && out == m.n, "every record survives");
    core::mem::forget(l);
}

// @harness c06_list_step_age
// @props C06:quick C03:thorough
// @tier quick
// @variant lists2
// @stubbing yes
// @timeout 1500
// @mem 14
// @functions ForeignMasterList::step_age, ArrayVec::remove
// @bounds one step_age(step) with any step in [0, 2^36 ns) from an arbitrary list state satisfying the invariant (each of the 7 shapes of 0..=2 records with 1..=2 messages, any ages in [0, window), any sequence ids); announce interval 1 s; capacities scaled 8 -> 2; stored Announce payloads concrete
// @assume ForeignMaster::step_age replaced by fm_step_age_stub (returns a symbolic 'nothing left' verdict per record, checks its arguments); the real function is decided by c06_record_step_age
// @note expiry half of C06, list walk: every record is aged exactly once with the given step and the port's announce interval; a record is removed iff its record-level ageing reports it empty; survivors keep their order and content. With c06_record_step_age and induction over BMCA runs: a master that falls silent is gone at the first run at or after four intervals, one with a message younger than four intervals is not dropped.
#[kani::proof]
#[kani::unwind(9)]
#[kani::stub(crate::bmc::foreign_master::ForeignMaster::step_age, crate::bmc::foreign_master::verif_fm::fm_step_age_stub)]
fn c06_list_step_age() {
    let mut k = 0;
    while k < 7 {
        step_age_case(SHAPES[k].0, SHAPES[k].1);
        k += 1;
    }
}

fn take_case(n: usize, cs: [usize; 2]) {
    let (mut l, m) = any_list(own_identity(), n, cs);
    let mut it = l.take_qualified_announce_messages();
    // the walk is from the last record to the first
    let mut i = 2;
    while i > 0 {
        i -= 1;
        if i < m.n && m.c[i] == 2 {
            let x = it.next();
            assert!(x.is_some(), "C06: a master with two Announces inside the window did not qualify");
            let x = x.unwrap();
            assert!(x.header.source_port_identity.port_number == 1 + i as u16 && x.header.sequence_id == m.seq[i][1] && x.age == dur(m.age[i][1]),
                "C06: the qualified message is not the master's most recent one");
            core::mem::forget(x);
        }
    }
    assert!(it.next().is_none(), "C06: a master qualified on the strength of a single Announce");
    core::mem::forget(it);
    assert!(l.foreign_masters.len() == m.n);
    let mut i = 0;
    while i < 2 {
        if i < m.n {
            assert!(record_is(&l, i, 1 + i as u16, 1, m.seq[i], m.age[i]), "C06: take must leave exactly the older message of a qualified master / the single message of an unqualified one");
        }
        i += 1;
    }
    kani::cover!(m.n == 2 && m.c[0] == 2 && m.c[1] == 2, "two qualified masters");
    kani::cover!(m.n == 2 && m.c[0] == 1 && m.c[1] == 1, "no qualified master");
    core::mem::forget(l);
}

// @harness c06_list_take_qualified
// @props C06:quick C03:quick
// @tier quick
// @variant lists2
// @timeout 1500
// @mem 5
// @functions ForeignMasterList::take_qualified_announce_messages, ArrayVec::remove, ArrayVec::push, ArrayVec::into_iter
// @bounds one take_qualified_announce_messages() from an arbitrary list state satisfying the invariant (each of the 7 shapes, as c06_list_step_age); no stubs
// @note qualification half of C06: a master yields a message (its most recent one) iff its record holds at least two messages - all of which are younger than four announce intervals by the invariant; a record with a single message yields nothing and is left untouched; nothing else changes
#[kani::proof]
#[kani::unwind(9)]
fn c06_list_take_qualified() {
    let mut k = 0;
    while k < 7 {
        take_case(SHAPES[k].0, SHAPES[k].1);
        k += 1;
    }
}

fn register_case(n: usize, cs: [usize; 2]) {
    let own = own_identity();
    let (mut l, m) = any_list(own, n, cs);
    let who: u8 = kani::any();
    kani::assume(who < 4);
    let seq: u16 = kani::any();
    let mut a = plain_announce(1 + who as u16, seq);
    if who == 3 {
        a.header.source_port_identity = PortIdentity { clock_identity: own.clock_identity, port_number: kani::any() };
    }
    a.steps_removed = kani::any();
    let age = any_age();
    unsafe {
        FM_REG_CALLS = 0;
        FM_REG = None;
    }
    l.register_announce_message(&a.header, &a, dur(age));
    let known = (who as usize) < m.n;
    let last = if known { m.seq[who as usize][m.c[who as usize] - 1] } else { 0 };
    let admitted = who != 3 && a.steps_removed < 255 && (!known || seq.wrapping_sub(last) < 32767);
    // existing records are never touched by the list level itself
    let mut i = 0;
    while i < 2 {
        if i < m.n {
            assert!(record_is(&l, i, 1 + i as u16, m.c[i], m.seq[i], m.age[i]), "C06: registration changed a record at list level");
        }
        i += 1;
    }
    if admitted && known {
        assert!(unsafe { FM_REG_CALLS } == 1 && unsafe { FM_REG } == Some((1 + who as u16, seq, dur(age), ti_one_second())),
            "C06: an admitted Announce of a known master must be handed to exactly that master's record with its sequence id, age and the port's announce interval");
        assert!(l.foreign_masters.len() == m.n);
    } else {
        assert!(unsafe { FM_REG_CALLS } == 0, "C06: a rejected Announce (own clock, stepsRemoved >= 255, stale sequence id) reached a record");
        if admitted && m.n < 2 {
            assert!(l.foreign_masters.len() == m.n + 1 && record_is(&l, m.n, 1 + who as u16, 1, [seq, 0], [0, 0]), "C06: a new master must start with a single message of age zero");
        } else {
            assert!(l.foreign_masters.len() == m.n, "C06: record count changed");
        }
    }
    kani::cover!(admitted && known && last > 65000 && seq < 100, "known master admitted across the sequence wrap");
    kani::cover!(!admitted && known && who != 3 && a.steps_removed < 255, "stale sequence id rejected");
    kani::cover!(admitted && !known, "admitted Announce of an unknown master");
    kani::cover!(who == 3, "own clock identity rejected");
    core::mem::forget(l);
}

// @harness c06_list_register
// @props C06:quick C07:thorough C03:quick
// @tier quick
// @variant lists2
// @stubbing yes
// @timeout 1800
// @mem 5
// @functions ForeignMasterList::register_announce_message, ForeignMasterList::is_announce_message_qualified, ForeignMasterList::get_foreign_master_mut, ForeignMaster::new, ArrayVec::push
// @bounds one register_announce_message(header, announce, age) from an arbitrary list state satisfying the invariant (each of the 7 shapes); the Announce comes from record 0, record 1, a third master or the own clock (symbolic choice), with any sequence id, any stepsRemoved and any age in [0, window); capacities scaled 8 -> 2
// @assume ForeignMaster::register_announce_message replaced by fm_register_stub (records master, sequence id, age, interval); the real function is decided by c06_record_register
// @note admission half of C06: own clock identity, stepsRemoved >= 255 and sequence ids not newer (modulo 2^16, window 2^15 - 1) than the record's latest never reach a record and never create one; an admitted Announce of a known master is handed to exactly that record with the given age - including across 65535 -> 0; a new master gets a one-message record with age zero if there is room and is ignored otherwise (beyond capacity: only the necessary-condition half)
#[kani::proof]
#[kani::unwind(9)]
#[kani::stub(crate::bmc::foreign_master::ForeignMaster::register_announce_message, crate::bmc::foreign_master::verif_fm::fm_register_stub)]
fn c06_list_register() {
    let mut k = 0;
    while k < 7 {
        register_case(SHAPES[k].0, SHAPES[k].1);
        k += 1;
    }
}
