//! Foreign-master record level helpers and harnesses (child of `bmc::foreign_master`).
#![allow(dead_code, unused_imports)]
use super::*;

/// number of foreign masters recorded
pub(crate) fn list_len(l: &ForeignMasterList) -> usize {
    l.foreign_masters.len()
}

/// total number of stored announce messages (sum over the first two records; lists are scaled to
/// capacity 2 in the port harnesses, and empty in their pre-states)
pub(crate) fn list_messages(l: &ForeignMasterList) -> usize {
    let mut n = 0;
    if l.foreign_masters.len() > 0 { n += l.foreign_masters[0].announce_messages.len(); }
    if l.foreign_masters.len() > 1 { n += l.foreign_masters[1].announce_messages.len(); }
    n
}

// ================================================================================================
// Recording replacement for `ForeignMasterList::register_announce_message` (used via #[kani::stub] by
// the Announce-receive harnesses in harness/port): the list lives inside `Port`, and writing a 400-octet
// record into a field of that struct is the same CBMC pathology as the packet buffer (DESIGN 8.1).
// What the real function does with a registration is decided on a stand-alone list below.
// ================================================================================================
pub(crate) static mut REG_COUNT: u32 = 0;
pub(crate) static mut REG_LAST: Option<(Header, AnnounceMessage, Duration)> = None;

pub(crate) fn register_rec(_l: &mut ForeignMasterList, header: &Header, m: &AnnounceMessage, age: Duration) {
    unsafe {
        REG_COUNT += 1;
        REG_LAST = Some((*header, *m, age));
    }
}

pub(crate) fn reg_count() -> u32 { unsafe { REG_COUNT } }
pub(crate) fn reg_last() -> Option<(Header, AnnounceMessage, Duration)> { unsafe { REG_LAST } }

use crate::verif_root::gen::*;

fn ti_one_second() -> TimeInterval {
    TimeInterval(fixed::types::I48F16::from_num(1_000_000_000i64))
}

// @harness c07_foreign_master_registration
// @props C07 C03 C11:thorough
// @tier quick
// @variant lists2
// @timeout 1200
// @mem 10
// @functions ForeignMasterList::new, ForeignMasterList::register_announce_message, ForeignMasterList::is_announce_message_qualified, ForeignMaster::new, ForeignMasterList::get_foreign_master
// @bounds stand-alone list (capacities scaled 8 -> 2), first registration of a fully symbolic Announce with any age, then the qualification verdict for a second fully symbolic Announce
// @note the C06 fragment that is decidable: own clock identity and stepsRemoved >= 255 never enter the list; a newer sequence id (window of 2^15, across the 65535 -> 0 wrap) is required from a known master. Threshold, ageing and expiry (list walks) are outside (C06 is not applicable).
#[kani::proof]
#[kani::unwind(9)]
fn c07_foreign_master_registration() {
    let own = any_port_identity();
    let mut l = ForeignMasterList::new(ti_one_second(), own);
    let m1 = any_announce();
    let age = any_duration_bits(64);
    l.register_announce_message(&m1.header, &m1, age);
    let q1 = m1.header.source_port_identity.clock_identity != own.clock_identity && m1.steps_removed < 255;
    assert!(list_len(&l) == (q1 as usize), "announce of the own clock / with stepsRemoved >= 255 was recorded (or a qualified one was not)");
    if q1 {
        assert!(l.foreign_masters[0].foreign_master_port_identity == m1.header.source_port_identity);
        assert!(l.foreign_masters[0].announce_messages.len() == 1 && l.foreign_masters[0].announce_messages[0].message == m1);
    }
    let m2 = any_announce();
    let got = l.is_announce_message_qualified(&m2);
    let src2 = m2.header.source_port_identity;
    let newer = !(q1 && src2 == m1.header.source_port_identity) || m2.header.sequence_id.wrapping_sub(m1.header.sequence_id) < 32767;
    let want = src2.clock_identity != own.clock_identity && m2.steps_removed < 255 && newer;
    assert!(got == want, "qualification predicate differs from: not own clock, stepsRemoved < 255, newer sequence id");
    kani::cover!(q1 && got && src2 == m1.header.source_port_identity && m2.header.sequence_id < m1.header.sequence_id, "sequence wrap-around accepted");
    kani::cover!(q1 && !got && src2 == m1.header.source_port_identity && src2.clock_identity != own.clock_identity && m2.steps_removed < 255, "stale sequence id rejected");
    core::mem::forget(l);
}

// @harness c03_foreign_master_list_ageing
// @props C03
// @tier thorough
// @role best_effort
// @variant lists2
// @timeout 2700
// @mem 34
// @functions ForeignMasterList::register_announce_message, ForeignMasterList::step_age, ForeignMaster::step_age, ForeignMaster::purge_old_messages, ForeignMasterList::take_qualified_announce_messages
// @bounds stand-alone list with capacities scaled 8 -> 2: two different qualified masters registered with symbolic ages, one ageing step of symbolic length, then the qualified-message take; announce interval 1 s
// @note list-level code is outside (C06 not applicable): this harness ran out of memory at 12 GB even at capacity 2 x 2; it is kept as a best-effort attempt with a 34 GB cap
#[kani::proof]
#[kani::unwind(6)]
fn c03_foreign_master_list_ageing() {
    let own = any_port_identity();
    let mut l = ForeignMasterList::new(ti_one_second(), own);
    let m1 = any_announce();
    let m2 = any_announce();
    let q = |m: &AnnounceMessage| m.header.source_port_identity.clock_identity != own.clock_identity && m.steps_removed < 255;
    kani::assume(q(&m1) && q(&m2) && m1.header.source_port_identity != m2.header.source_port_identity);
    let a1 = any_duration_bits(64);
    let a2 = any_duration_bits(64);
    kani::assume(a1 >= Duration::ZERO && a2 >= Duration::ZERO);
    l.register_announce_message(&m1.header, &m1, a1);
    l.register_announce_message(&m2.header, &m2, a2);
    assert!(list_len(&l) == 2);
    let step = any_duration_bits(64);
    kani::assume(step >= Duration::ZERO);
    l.step_age(step);
    let window = Duration::from_secs(4);
    let keep1 = a1 + step < window;
    let keep2 = a2 + step < window;
    assert!(list_len(&l) == (keep1 as usize) + (keep2 as usize), "a master must be dropped exactly when its newest Announce is older than four announce intervals");
    if keep1 {
        assert!(l.foreign_masters[0].foreign_master_port_identity == m1.header.source_port_identity);
    }
    // a single message never qualifies a master
    let mut it = l.take_qualified_announce_messages();
    assert!(it.next().is_none(), "a master qualified on the strength of a single Announce");
    kani::cover!(!keep1 && keep2, "older master expires while the newer stays");
    kani::cover!(keep1 && !keep2, "second master expires first");
    core::mem::forget(it);
    core::mem::forget(l);
}
