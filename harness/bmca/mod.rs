//! C05 layers 2 and 3: ordering properties of `BestAnnounceMessage::compare`, `find_best_announce_message`,
//! and `Bmca::calculate_recommended_state` against the reference state decision (Figure 33).
use super::*;
use crate::config::{ClockIdentity, ClockQuality, InstanceConfig};
use crate::datastructures::datasets::InternalDefaultDS;
use crate::verif_root::gen::*;
use crate::verif_root::refbmca::*;

fn any_best(receiver: PortIdentity) -> BestAnnounceMessage {
    let mut h = crate::datastructures::messages::Header::new(1);
    h.source_port_identity = any_port_identity();
    h.sequence_id = kani::any();
    BestAnnounceMessage {
        header: h,
        message: any_announce_with_header(h),
        age: any_duration_bits(96),
        identity: receiver,
    }
}

fn refds(b: &BestAnnounceMessage) -> RefDs {
    ref_of_announce(&b.message, &b.identity)
}

/// "consistent": two announces that name the same grandmaster describe it identically
fn consistent(a: &BestAnnounceMessage, b: &BestAnnounceMessage) -> bool {
    a.message.grandmaster_identity != b.message.grandmaster_identity
        || (a.message.grandmaster_priority_1 == b.message.grandmaster_priority_1
            && a.message.grandmaster_priority_2 == b.message.grandmaster_priority_2
            && a.message.grandmaster_clock_quality == b.message.grandmaster_clock_quality)
}

/// what `take_best_port_announce_message` can return: the sender is not the receiving clock
fn qualified(a: &BestAnnounceMessage) -> bool {
    a.message.header.source_port_identity.clock_identity != a.identity.clock_identity
        && a.message.steps_removed < 255
}

fn any_own(clock: ClockIdentity) -> InternalDefaultDS {
    let mut d = InternalDefaultDS::new(InstanceConfig {
        clock_identity: clock,
        priority_1: kani::any(),
        priority_2: kani::any(),
        domain_number: 0,
        slave_only: kani::any(),
        sdo_id: Default::default(),
        path_trace: false,
        clock_quality: any_quality(),
    });
    d.number_ports = kani::any();
    d
}

fn ref_of_own(d: &InternalDefaultDS) -> RefDs {
    RefDs {
        p1: d.priority_1,
        class: d.clock_quality.clock_class,
        acc: d.clock_quality.clock_accuracy.to_primitive(),
        var: d.clock_quality.offset_scaled_log_variance,
        p2: d.priority_2,
        gm: d.clock_identity.0,
        steps: 0,
        sender: d.clock_identity.0,
        recv_clock: d.clock_identity.0,
        recv_port: 0,
    }
}

fn any_port_state() -> PortState {
    let k: u8 = kani::any();
    match k {
        0 => PortState::Faulty,
        1 => PortState::Listening,
        2 => PortState::Master,
        3 => PortState::Passive,
        _ => crate::port::verif_port::common::mk_slave_state(any_port_identity()),
    }
}

// @harness c05_best_compare_matches_reference
// @props C05:quick
// @tier quick
// @timeout 300
// @functions BestAnnounceMessage::compare, compare_dataset, ComparisonDataset::from_announce_message, ComparisonDataset::compare
// @bounds two fully symbolic announces (all GM attributes, 8-byte identities, stepsRemoved, ages as 96-bit durations) with symbolic receiving port identities
#[kani::proof]
#[kani::unwind(9)]
fn c05_best_compare_matches_reference() {
    let a = any_best(any_port_identity());
    let b = any_best(any_port_identity());
    let got = a.compare(&b);
    let r = ref_order(&refds(&a), &refds(&b));
    let want = if r > 0 {
        core::cmp::Ordering::Greater
    } else if r < 0 {
        core::cmp::Ordering::Less
    } else {
        // tie: newer (smaller age) is preferred
        b.age.cmp(&a.age)
    };
    assert!(got == want, "BestAnnounceMessage::compare differs from reference order + age tie-break");
    assert!(b.compare(&a) == got.reverse(), "not antisymmetric");
    kani::cover!(r == 0 && got == core::cmp::Ordering::Greater, "tie decided by age");
    kani::cover!(r > 0, "better");
    kani::cover!(r < 0, "worse");
}

// @harness c05_best_compare_transitive
// @props C05:quick
// @tier quick
// @timeout 600
// @functions BestAnnounceMessage::compare
// @bounds three fully symbolic announces received on three symbolic ports of one clock
// @assume consistency precondition: announces naming the same grandmasterIdentity carry the same priority1/quality/priority2 (without it the standard's own algorithm has cycles; see c05_best_compare_cycle_witness)
// @assume each announce is qualified: sender clock identity differs from the receiving clock
#[kani::proof]
#[kani::unwind(9)]
fn c05_best_compare_transitive() {
    let own = any_clock_identity();
    let a = any_best(PortIdentity { clock_identity: own, port_number: kani::any() });
    let b = any_best(PortIdentity { clock_identity: own, port_number: kani::any() });
    let c = any_best(PortIdentity { clock_identity: own, port_number: kani::any() });
    kani::assume(consistent(&a, &b) && consistent(&b, &c) && consistent(&a, &c));
    kani::assume(qualified(&a) && qualified(&b) && qualified(&c));
    let ab = a.compare(&b);
    let bc = b.compare(&c);
    let ac = a.compare(&c);
    use core::cmp::Ordering::*;
    if ab != Less && bc != Less {
        assert!(ac != Less, "a >= b >= c but a < c");
        if ab == Greater || bc == Greater {
            assert!(ac == Greater, "strictness lost");
        }
    }
    kani::cover!(ab == Greater && bc == Greater, "strict chain");
    kani::cover!(ab == Equal && bc == Greater, "mixed chain");
}

// @harness c05_best_compare_cycle_witness
// @props C05:thorough
// @tier thorough
// @timeout 600
// @expect fail
// @role witness
// @functions BestAnnounceMessage::compare
// @bounds three fully symbolic announces, no consistency precondition
// @note informational expected-sat query: without the consistency precondition a 3-cycle exists (the standard's algorithm on inconsistent data); shows the precondition of c05_best_compare_transitive is necessary, not a defect
#[kani::proof]
#[kani::unwind(9)]
fn c05_best_compare_cycle_witness() {
    let own = any_clock_identity();
    let a = any_best(PortIdentity { clock_identity: own, port_number: 1 });
    let b = any_best(PortIdentity { clock_identity: own, port_number: 1 });
    let c = any_best(PortIdentity { clock_identity: own, port_number: 1 });
    kani::assume(qualified(&a) && qualified(&b) && qualified(&c));
    use core::cmp::Ordering::*;
    assert!(!(a.compare(&b) == Greater && b.compare(&c) == Greater && c.compare(&a) == Greater));
}

fn best_of(x: BestAnnounceMessage, y: BestAnnounceMessage, z: BestAnnounceMessage) -> BestAnnounceMessage {
    Bmca::<()>::find_best_announce_message([x, y, z]).unwrap()
}

// @harness c05_find_best_maximal_and_order_independent
// @props C05:quick
// @tier quick
// @timeout 900
// @functions Bmca::find_best_announce_message, BestAnnounceMessage::compare
// @bounds three fully symbolic qualified candidates, all six presentation orders
// @assume consistency precondition as in c05_best_compare_transitive
#[kani::proof]
#[kani::unwind(9)]
fn c05_find_best_maximal_and_order_independent() {
    let own = any_clock_identity();
    let a = any_best(PortIdentity { clock_identity: own, port_number: kani::any() });
    let b = any_best(PortIdentity { clock_identity: own, port_number: kani::any() });
    let c = any_best(PortIdentity { clock_identity: own, port_number: kani::any() });
    kani::assume(consistent(&a, &b) && consistent(&b, &c) && consistent(&a, &c));
    kani::assume(qualified(&a) && qualified(&b) && qualified(&c));
    use core::cmp::Ordering::*;
    let m = best_of(a, b, c);
    assert!(m.compare(&a) != Less && m.compare(&b) != Less && m.compare(&c) != Less, "selected candidate is worse than another");
    assert!(m == a || m == b || m == c);
    let m2 = best_of(a, c, b);
    let m3 = best_of(b, a, c);
    let m4 = best_of(b, c, a);
    let m5 = best_of(c, a, b);
    let m6 = best_of(c, b, a);
    assert!(m.compare(&m2) == Equal && m.compare(&m3) == Equal && m.compare(&m4) == Equal
        && m.compare(&m5) == Equal && m.compare(&m6) == Equal, "outcome depends on presentation order");
    // when the maximum is strict, the very same record is selected in every order
    if (m.compare(&a) == Greater || m == a) && (m.compare(&b) == Greater || m == b) && (m.compare(&c) == Greater || m == c) {
        assert!(m == m2 && m == m3 && m == m4 && m == m5 && m == m6);
    }
    let none: [BestAnnounceMessage; 0] = []; assert!(Bmca::<()>::find_best_announce_message(none).is_none());
    kani::cover!(m == c && m != a && m != b, "last candidate wins");
    kani::cover!(m == a && m != b && m != c, "first candidate wins");
}

fn dec_code(r: &Option<RecommendedState>) -> u8 {
    match r {
        None => DEC_NONE,
        Some(RecommendedState::M1(_)) => DEC_M1,
        Some(RecommendedState::M2(_)) => DEC_M2,
        Some(RecommendedState::M3(_)) => DEC_M3,
        Some(RecommendedState::P1(_)) => DEC_P1,
        Some(RecommendedState::P2(_)) => DEC_P2,
        Some(RecommendedState::S1(_)) => DEC_S1,
    }
}

// @harness c05_state_decision_matches_reference
// @props C05:quick
// @tier quick
// @timeout 900
// @functions Bmca::calculate_recommended_state, calculate_recommended_state_low_class, calculate_recommended_state_high_class, compare_global_and_port, compare_d0_best
// @bounds D0 fully symbolic (priority1, class incl. <128 and >=128, accuracy, variance, priority2, identity); Ebest and Erbest each absent or a fully symbolic announce received on a symbolic port of the own clock; every prior port state
// @assume documented deviation coded in the reference: a LISTENING port without Erbest stays (IEEE 1588-2008 reading)
#[kani::proof]
#[kani::unwind(9)]
fn c05_state_decision_matches_reference() {
    let own = any_clock_identity();
    let d0 = any_own(own);
    let ebest = if kani::any() { Some(any_best(PortIdentity { clock_identity: own, port_number: kani::any() })) } else { None };
    let erbest = if kani::any() {
        if kani::any() { ebest } else { Some(any_best(PortIdentity { clock_identity: own, port_number: kani::any() })) }
    } else {
        None
    };
    let state = any_port_state();
    let got = Bmca::<()>::calculate_recommended_state(&d0, ebest, erbest, &state);
    let r0 = ref_of_own(&d0);
    let reb = ebest.map(|b| refds(&b));
    let rer = erbest.map(|b| refds(&b));
    let same = ebest.is_some() && ebest == erbest;
    let want = ref_decision(&r0, reb.as_ref(), rer.as_ref(), same, matches!(state, PortState::Listening));
    assert!(dec_code(&got) == want, "state decision differs from Figure 33");
    match &got {
        Some(RecommendedState::M1(d)) | Some(RecommendedState::M2(d)) => assert!(*d == d0),
        Some(RecommendedState::S1(m)) => assert!(*m == ebest.unwrap().message && *m == erbest.unwrap().message),
        Some(RecommendedState::P1(m)) | Some(RecommendedState::P2(m)) => assert!(*m == erbest.unwrap().message),
        Some(RecommendedState::M3(m)) => assert!(*m == ebest.unwrap().message),
        None => {}
    }
    kani::cover!(want == DEC_NONE, "stay");
    kani::cover!(want == DEC_M1, "M1");
    kani::cover!(want == DEC_M2, "M2");
    kani::cover!(want == DEC_M3, "M3");
    kani::cover!(want == DEC_P1, "P1");
    kani::cover!(want == DEC_P2, "P2");
    kani::cover!(want == DEC_S1, "S1");
}

// ---- helpers for other mounts ------------------------------------------------------------

pub(crate) fn fm_len<A>(b: &Bmca<A>) -> usize {
    crate::bmc::foreign_master::verif_fm::list_len(&b.foreign_master_list)
}

pub(crate) fn fm_messages<A>(b: &Bmca<A>) -> usize {
    crate::bmc::foreign_master::verif_fm::list_messages(&b.foreign_master_list)
}

/// Build the value `take_best_port_announce_message` returns for a qualified announce received
/// on `receiver`.
pub(crate) fn mk_best(message: AnnounceMessage, age: Duration, receiver: PortIdentity) -> BestAnnounceMessage {
    BestAnnounceMessage { header: message.header, message, age, identity: receiver }
}

pub(crate) fn best_message(b: &BestAnnounceMessage) -> &AnnounceMessage {
    &b.message
}

pub(crate) fn best_age(b: &BestAnnounceMessage) -> Duration {
    b.age
}

pub(crate) fn best_identity(b: &BestAnnounceMessage) -> PortIdentity {
    b.identity
}

/// Contract of `Bmca::take_best_port_announce_message` (DESIGN: Erbest stub): either no qualified
/// foreign master, or an arbitrary qualified Announce received on this port - sender is not the own
/// clock, stepsRemoved < 255, sender accepted by the port's acceptable master list - with an
/// arbitrary non-negative age. What the list-level code does to obtain it is outside the claim (C06).
/// case split of the instance-level harness: per port number (1, 2) 0 = Erbest present or absent (symbolic),
/// 1 = absent, 2 = present. The parts of a split harness cover every combination between them.
pub(crate) static mut TAKE_FORCE: [u8; 2] = [0; 2];

pub(crate) fn take_stub<A: AcceptableMasterList>(b: &mut Bmca<A>) -> Option<BestAnnounceMessage> {
    let pn = b.own_port_identity.port_number;
    let force = if pn == 1 || pn == 2 { unsafe { TAKE_FORCE[(pn - 1) as usize] } } else { 0 };
    let absent: bool = kani::any();
    if force == 1 || (force == 0 && absent) {
        return None;
    }
    let m = any_announce();
    kani::assume(m.header.source_port_identity.clock_identity != b.own_port_identity.clock_identity);
    kani::assume(m.steps_removed < 255);
    kani::assume(b.acceptable_master_list.is_acceptable(m.header.source_port_identity.clock_identity));
    let age = any_duration_bits(64);
    kani::assume(age >= Duration::ZERO);
    Some(BestAnnounceMessage { header: m.header, message: m, age, identity: b.own_port_identity })
}

// ================================================================================================
// C06 at Bmca level: what one BMCA run takes from a port's foreign-master list and what it leaves.
// ================================================================================================
fn take_best_case(n: usize, cs: [usize; 2]) {
    use crate::bmc::foreign_master::verif_fm::{any_list, dur, own_identity, record_is, ti_one_second};
    let own = own_identity();
    let (l, m) = any_list(own, n, cs);
    let mut b = Bmca::new(crate::bmc::acceptable_master::AcceptAnyMaster, ti_one_second(), own);
    b.foreign_master_list = l;
    let best = b.take_best_port_announce_message();
    let q = [n > 0 && cs[0] == 2, n > 1 && cs[1] == 2];
    assert!(best.is_some() == (q[0] || q[1]), "C06: Erbest exists iff some master has two Announces inside the window");
    let mut chosen = 2usize;
    if let Some(x) = &best {
        let pn = x.header.source_port_identity.port_number;
        assert!(pn == 1 || pn == 2);
        chosen = (pn - 1) as usize;
        assert!(q[chosen], "C06: Erbest taken from a master with a single Announce");
        assert!(x.header.sequence_id == m.seq[chosen][1] && x.age == dur(m.age[chosen][1]) && x.identity == own, "C06: Erbest must be the master's most recent Announce with its age");
    }
    assert!(fm_len(&b) == n, "C06: a BMCA run must not add or remove records");
    let mut i = 0;
    while i < 2 {
        if i < n {
            if i == chosen {
                assert!(record_is(&b.foreign_master_list, i, 1 + i as u16, 2, m.seq[i], m.age[i]), "C06: the record of Erbest must be restored (message re-registered with its age)");
            } else {
                assert!(record_is(&b.foreign_master_list, i, 1 + i as u16, 1, m.seq[i], m.age[i]), "C06: a BMCA run leaves other masters exactly their older message");
            }
        }
        i += 1;
    }
    kani::cover!(n < 2 || cs[0] == 1 || (q[0] && q[1]), "two qualified masters compete (shape 2 x [2, 2])");
    kani::cover!(cs[0] == 2 || (n > 0 && !q[0] && !q[1]), "no master qualified (shapes whose first record holds one message)");
    core::mem::forget(best);
    core::mem::forget(b);
}

// @harness c06_bmca_take_best_n01
// @props C06:quick C03:quick
// @tier quick
// @variant lists2_rv
// @stubbing yes
// @timeout 1800
// @mem 6
// @functions Bmca::take_best_port_announce_message, Bmca::find_best_announce_message, BestAnnounceMessage::compare, Bmca::reregister_announce_message, ForeignMasterList::take_qualified_announce_messages, ForeignMasterList::register_announce_message, ForeignMaster::register_announce_message
// @bounds one take_best_port_announce_message() of a stand-alone Bmca (accept-any master list) whose list is in an arbitrary state satisfying the invariant (the 3 shapes with at most one record of 1..=2 messages, any ages in [0, window), any sequence ids; concrete Announce payloads, masters differ in port number only); capacities scaled 8 -> 2
// @assume arrayvec::ArrayVec::retain (textually, variant _rv) and ArrayVec::remove (#[kani::stub]) replaced by element-wise equivalents for at most two elements (retain2, remove2)
// @note consumption half of C06: the port's Erbest exists iff some master has at least two Announces inside the window - never on the strength of a single message; it is that master's most recent Announce with its age; the run restores the record of Erbest and leaves every other master exactly its older message (a competing master needs a further Announce to qualify again)
#[kani::proof]
#[kani::unwind(9)]
#[kani::stub(arrayvec::ArrayVec::remove, crate::bmc::foreign_master::verif_fm::remove2)]
fn c06_bmca_take_best_n01() {
    use crate::bmc::foreign_master::verif_fm::SHAPES;
    let mut k = 0;
    while k < 3 {
        take_best_case(SHAPES[k].0, SHAPES[k].1);
        k += 1;
    }
}

// @harness c06_bmca_take_best_n2a
// @props C06:quick C03:thorough
// @tier quick
// @variant lists2_rv
// @stubbing yes
// @timeout 1800
// @mem 15
// @functions Bmca::take_best_port_announce_message, Bmca::find_best_announce_message, BestAnnounceMessage::compare, Bmca::reregister_announce_message, ForeignMasterList::take_qualified_announce_messages, ForeignMasterList::register_announce_message, ForeignMaster::register_announce_message
// @bounds one take_best_port_announce_message() of a stand-alone Bmca (accept-any master list) whose list is in an arbitrary state satisfying the invariant (the 2 shapes with two records whose first holds 1 message, any ages in [0, window), any sequence ids; concrete Announce payloads, masters differ in port number only); capacities scaled 8 -> 2
// @assume arrayvec::ArrayVec::retain (textually, variant _rv) and ArrayVec::remove (#[kani::stub]) replaced by element-wise equivalents for at most two elements (retain2, remove2)
// @note consumption half of C06: the port's Erbest exists iff some master has at least two Announces inside the window - never on the strength of a single message; it is that master's most recent Announce with its age; the run restores the record of Erbest and leaves every other master exactly its older message (a competing master needs a further Announce to qualify again)
#[kani::proof]
#[kani::unwind(9)]
#[kani::stub(arrayvec::ArrayVec::remove, crate::bmc::foreign_master::verif_fm::remove2)]
fn c06_bmca_take_best_n2a() {
    use crate::bmc::foreign_master::verif_fm::SHAPES;
    let mut k = 3;
    while k < 5 {
        take_best_case(SHAPES[k].0, SHAPES[k].1);
        k += 1;
    }
}

// @harness c06_bmca_take_best_n2b
// @props C06:quick C03:thorough
// @tier quick
// @variant lists2_rv
// @stubbing yes
// @timeout 1800
// @mem 15
// @functions Bmca::take_best_port_announce_message, Bmca::find_best_announce_message, BestAnnounceMessage::compare, Bmca::reregister_announce_message, ForeignMasterList::take_qualified_announce_messages, ForeignMasterList::register_announce_message, ForeignMaster::register_announce_message
// @bounds one take_best_port_announce_message() of a stand-alone Bmca (accept-any master list) whose list is in an arbitrary state satisfying the invariant (the 2 shapes with two records whose first holds 2 messages, any ages in [0, window), any sequence ids; concrete Announce payloads, masters differ in port number only); capacities scaled 8 -> 2
// @assume arrayvec::ArrayVec::retain (textually, variant _rv) and ArrayVec::remove (#[kani::stub]) replaced by element-wise equivalents for at most two elements (retain2, remove2)
// @note consumption half of C06: the port's Erbest exists iff some master has at least two Announces inside the window - never on the strength of a single message; it is that master's most recent Announce with its age; the run restores the record of Erbest and leaves every other master exactly its older message (a competing master needs a further Announce to qualify again)
#[kani::proof]
#[kani::unwind(9)]
#[kani::stub(arrayvec::ArrayVec::remove, crate::bmc::foreign_master::verif_fm::remove2)]
fn c06_bmca_take_best_n2b() {
    use crate::bmc::foreign_master::verif_fm::SHAPES;
    let mut k = 5;
    while k < 7 {
        take_best_case(SHAPES[k].0, SHAPES[k].1);
        k += 1;
    }
}
