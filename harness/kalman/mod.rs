//! C13: clock control commands of the Kalman servo stay finite and within the configured bounds
//! (command stage, one step from an arbitrary non-NaN estimator state). Child of `filters::kalman`.
#![allow(dead_code, unused_imports)]
use super::*;
use crate::config::TimePropertiesDS;
use crate::Clock;

pub(crate) struct CmdClock {
    pub ret: Time,
    pub fail_freq: bool,
    pub fail_step: bool,
    pub n_freq: u32,
    pub last_freq: f64,
    pub n_step: u32,
    pub last_step: Duration,
}

impl CmdClock {
    fn any(ret: Time) -> Self {
        CmdClock { ret, fail_freq: kani::any(), fail_step: kani::any(), n_freq: 0, last_freq: 0.0, n_step: 0, last_step: Duration::ZERO }
    }
}

impl Clock for CmdClock {
    type Error = ();
    fn now(&self) -> Time { self.ret }
    fn step_clock(&mut self, offset: Duration) -> Result<Time, ()> {
        self.n_step += 1;
        self.last_step = offset;
        if self.fail_step { Err(()) } else { Ok(self.ret) }
    }
    fn set_frequency(&mut self, ppm: f64) -> Result<Time, ()> {
        self.n_freq += 1;
        self.last_freq = ppm;
        if self.fail_freq { Err(()) } else { Ok(self.ret) }
    }
    fn set_properties(&mut self, _t: &TimePropertiesDS) -> Result<(), ()> { Ok(()) }
}

fn any_f64_non_nan() -> f64 {
    let x: f64 = kani::any();
    kani::assume(!x.is_nan());
    x
}

fn any_finite() -> f64 {
    let x: f64 = kani::any();
    kani::assume(x.is_finite());
    x
}

/// Over-approximation of `InnerFilter::progress_filtertime` (the covariance propagation: ~60 f64
/// multiplications that CBMC cannot carry and that do not influence the command): arbitrary new state /
/// uncertainty, filter time advanced. Keeps the real function's reachable `debug_assert!`.
fn progress_filtertime_havoc(f: &mut InnerFilter, time: Time, _wander: f64, _config: &KalmanConfiguration) {
    debug_assert!(time >= f.filter_time);
    if time < f.filter_time {
        return;
    }
    f.state = Vector::new_vector([any_f64_non_nan(), any_f64_non_nan(), any_f64_non_nan()]);
    f.filter_time = time;
}

/// As `progress_filtertime_havoc`, but exact in the two components the real propagation leaves unchanged for a
/// finite state (`update * state` = [offset + dt * freq, freq, delay]): only the offset is arbitrary.
/// Valid for finite pre-states only (with an infinite entry the real product yields NaN in other rows).
fn progress_filtertime_offset_only(f: &mut InnerFilter, time: Time, _wander: f64, _config: &KalmanConfiguration) {
    debug_assert!(time >= f.filter_time);
    if time < f.filter_time {
        return;
    }
    f.state = Vector::new_vector([any_f64_non_nan(), f.state.ventry(1), f.state.ventry(2)]);
    f.filter_time = time;
}

fn any_config() -> KalmanConfiguration {
    let mut c = KalmanConfiguration::default();
    c.max_freq_offset = any_finite();
    kani::assume(c.max_freq_offset > 0.0 && c.max_freq_offset <= 1.0e6);
    c.max_steer = any_finite();
    kani::assume(c.max_steer > 0.0 && c.max_steer <= 1.0e6);
    c
}

fn mk(config: KalmanConfiguration, inner: Option<InnerFilter>, cur: Option<f64>) -> KalmanFilter {
    KalmanFilter {
        config,
        running_filter: BaseFilter(inner),
        wander_filter: BaseFilter(None),
        wander_score: 0,
        wander: config.initial_wander,
        wander_measurement_error: 1.0,
        measurement_error_estimator: MeasurementErrorEstimator::default(),
        cur_frequency: cur,
    }
}

fn any_inner(filter_time: Time) -> InnerFilter {
    InnerFilter {
        state: Vector::new_vector([any_f64_non_nan(), any_f64_non_nan(), any_f64_non_nan()]),
        uncertainty: Matrix::new([[1e-6, 0.0, 0.0], [0.0, 1e-8, 0.0], [0.0, 0.0, 1e-6]]),
        filter_time,
    }
}

/// |f| <= bound up to one rounding of `cur + (bound - cur)`
fn within(f: f64, bound: f64) -> bool {
    f.is_finite() && f.abs() <= bound * 1.0000000000000004
}

/// `part`: 0 = whole input space; 1..=4 = case split on (estimator present, sign of the current frequency)
fn change_frequency_case(config: KalmanConfiguration, part: u8) {
    let ft = crate::verif_root::gen::any_time();
    let ret = crate::verif_root::gen::any_time();
    kani::assume(ret >= ft);
    let cur = any_finite();
    kani::assume(within(cur, config.max_freq_offset));
    let has_inner: bool = kani::any();
    if part != 0 {
        kani::assume(has_inner == (part <= 2));
        kani::assume((cur >= 0.0) == (part % 2 == 1));
    }
    let mut f = mk(config, if has_inner { Some(any_inner(ft)) } else { None }, if kani::any() { Some(cur) } else { None });
    let had_freq = f.cur_frequency.is_some();
    let mut clock = CmdClock::any(ret);
    // every caller passes a finite target (steer clamps to +-max_steer, update / demobilize pass 0.0)
    let target = any_finite();
    f.change_frequency(target, &mut clock);
    if had_freq {
        assert!(clock.n_freq == 1 && clock.n_step == 0, "exactly one frequency command");
        assert!(within(clock.last_freq, config.max_freq_offset), "C13: frequency command not finite or beyond the configured maximum");
        if clock.fail_freq {
            assert!(f.cur_frequency == Some(cur), "a failed command must not change the book-keeping");
        } else {
            assert!(f.cur_frequency == Some(clock.last_freq));
        }
    } else {
        assert!(clock.n_freq == 0 && clock.n_step == 0, "no command before the frequency was initialised");
    }
    kani::cover!(had_freq && clock.last_freq.abs() == config.max_freq_offset, "clamped at a bound");
    kani::cover!(had_freq && clock.last_freq < 0.0, "negative command");
    kani::cover!(had_freq && clock.fail_freq, "failing clock");
}


// @harness c13_change_frequency_est_pos
// @props C13:quick C03:quick
// @tier quick
// @stubbing yes
// @timeout 2400
// @mem 8
// @functions KalmanFilter::change_frequency, clamp_adjustment, BaseFilter::freq_offset, BaseFilter::absorb_frequency_steer, InnerFilter::absorb_frequency_steer
// @bounds case split (the parts of c13_change_frequency cover the whole input space between them): estimator present, current frequency >= 0. default servo configuration (max_freq_offset 400 ppm); arbitrary non-NaN estimator state (offset, frequency, delay: any f64 incl. infinities), current frequency within the bound (one rounding), target any finite f64 (what steer / update / demobilize pass), clock that fails nondeterministically and returns a time not before the filter time
// @assume InnerFilter::progress_filtertime replaced by an over-approximation (arbitrary new non-NaN state, filter time advanced); the covariance algebra is outside the claim
#[kani::proof]
#[kani::unwind(5)]
#[kani::stub(InnerFilter::progress_filtertime, progress_filtertime_havoc)]
fn c13_change_frequency_est_pos() { change_frequency_case(KalmanConfiguration::default(), 1) }

// @harness c13_change_frequency_est_neg
// @props C13:quick C03:quick
// @tier quick
// @stubbing yes
// @timeout 2400
// @mem 8
// @functions KalmanFilter::change_frequency, clamp_adjustment, BaseFilter::freq_offset, BaseFilter::absorb_frequency_steer, InnerFilter::absorb_frequency_steer
// @bounds case split (the parts of c13_change_frequency cover the whole input space between them): estimator present, current frequency < 0. default servo configuration (max_freq_offset 400 ppm); arbitrary non-NaN estimator state (offset, frequency, delay: any f64 incl. infinities), current frequency within the bound (one rounding), target any finite f64 (what steer / update / demobilize pass), clock that fails nondeterministically and returns a time not before the filter time
// @assume InnerFilter::progress_filtertime replaced by an over-approximation (arbitrary new non-NaN state, filter time advanced); the covariance algebra is outside the claim
#[kani::proof]
#[kani::unwind(5)]
#[kani::stub(InnerFilter::progress_filtertime, progress_filtertime_havoc)]
fn c13_change_frequency_est_neg() { change_frequency_case(KalmanConfiguration::default(), 2) }

// @harness c13_change_frequency_noest_pos
// @props C13:quick C03:thorough
// @tier quick
// @stubbing yes
// @timeout 2400
// @mem 8
// @functions KalmanFilter::change_frequency, clamp_adjustment, BaseFilter::freq_offset, BaseFilter::absorb_frequency_steer, InnerFilter::absorb_frequency_steer
// @bounds case split (the parts of c13_change_frequency cover the whole input space between them): no estimator yet, current frequency >= 0. default servo configuration (max_freq_offset 400 ppm); arbitrary non-NaN estimator state (offset, frequency, delay: any f64 incl. infinities), current frequency within the bound (one rounding), target any finite f64 (what steer / update / demobilize pass), clock that fails nondeterministically and returns a time not before the filter time
// @assume InnerFilter::progress_filtertime replaced by an over-approximation (arbitrary new non-NaN state, filter time advanced); the covariance algebra is outside the claim
#[kani::proof]
#[kani::unwind(5)]
#[kani::stub(InnerFilter::progress_filtertime, progress_filtertime_havoc)]
fn c13_change_frequency_noest_pos() { change_frequency_case(KalmanConfiguration::default(), 3) }

// @harness c13_change_frequency_noest_neg
// @props C13:quick C03:thorough
// @tier quick
// @stubbing yes
// @timeout 2400
// @mem 8
// @functions KalmanFilter::change_frequency, clamp_adjustment, BaseFilter::freq_offset, BaseFilter::absorb_frequency_steer, InnerFilter::absorb_frequency_steer
// @bounds case split (the parts of c13_change_frequency cover the whole input space between them): no estimator yet, current frequency < 0. default servo configuration (max_freq_offset 400 ppm); arbitrary non-NaN estimator state (offset, frequency, delay: any f64 incl. infinities), current frequency within the bound (one rounding), target any finite f64 (what steer / update / demobilize pass), clock that fails nondeterministically and returns a time not before the filter time
// @assume InnerFilter::progress_filtertime replaced by an over-approximation (arbitrary new non-NaN state, filter time advanced); the covariance algebra is outside the claim
#[kani::proof]
#[kani::unwind(5)]
#[kani::stub(InnerFilter::progress_filtertime, progress_filtertime_havoc)]
fn c13_change_frequency_noest_neg() { change_frequency_case(KalmanConfiguration::default(), 4) }

// @harness c13_change_frequency_any_config
// @props C13:thorough C03:thorough
// @tier thorough
// @stubbing yes
// @timeout 3600
// @mem 8
// @functions KalmanFilter::change_frequency, clamp_adjustment
// @bounds as c13_change_frequency with max_freq_offset and max_steer any finite value in (0, 10^6]
// @assume as c13_change_frequency
#[kani::proof]
#[kani::unwind(5)]
#[kani::stub(InnerFilter::progress_filtertime, progress_filtertime_havoc)]
fn c13_change_frequency_any_config() { change_frequency_case(any_config(), 0) }

// @harness c13_steer_default_pos
// @props C13:quick C03:thorough
// @tier quick
// @stubbing yes
// @timeout 3600
// @mem 14
// @functions KalmanFilter::steer, KalmanFilter::step, KalmanFilter::change_frequency, Duration::from_seconds, BaseFilter::absorb_offset_steer
// @bounds case split (parts _pos and _neg cover the whole input space): estimated offset >= 0; default max_freq_offset / max_steer. estimator offset any f64 with |offset| <= 10^9 s, frequency any finite f64, delay any f64 with |delay| <= 10^9 s, step threshold 1 ms, steer time 2 s, deadzone any value in [0, 4], failing clock
// @assume InnerFilter::progress_filtertime replaced by progress_filtertime_offset_only: new offset arbitrary (non-NaN), frequency and delay unchanged (exact for a finite state), filter time advanced; otherwise as c13_change_frequency
#[kani::proof]
#[kani::unwind(5)]
#[kani::stub(InnerFilter::progress_filtertime, progress_filtertime_offset_only)]
fn c13_steer_default_pos() { steer_case(KalmanConfiguration::default(), 1) }

// @harness c13_steer_default_neg
// @props C13:quick C03:thorough
// @tier quick
// @stubbing yes
// @timeout 3600
// @mem 14
// @functions KalmanFilter::steer, KalmanFilter::step, KalmanFilter::change_frequency, Duration::from_seconds, BaseFilter::absorb_offset_steer
// @bounds case split (parts _pos and _neg cover the whole input space): estimated offset < 0; default max_freq_offset / max_steer. estimator offset any f64 with |offset| <= 10^9 s, frequency any finite f64, delay any f64 with |delay| <= 10^9 s, step threshold 1 ms, steer time 2 s, deadzone any value in [0, 4], failing clock
// @assume InnerFilter::progress_filtertime replaced by progress_filtertime_offset_only: new offset arbitrary (non-NaN), frequency and delay unchanged (exact for a finite state), filter time advanced; otherwise as c13_change_frequency
#[kani::proof]
#[kani::unwind(5)]
#[kani::stub(InnerFilter::progress_filtertime, progress_filtertime_offset_only)]
fn c13_steer_default_neg() { steer_case(KalmanConfiguration::default(), 2) }

// @harness c13_steer_and_step
// @props C13:thorough C03:thorough
// @tier thorough
// @stubbing yes
// @timeout 3600
// @mem 14
// @functions KalmanFilter::steer, KalmanFilter::step, KalmanFilter::change_frequency, Duration::from_seconds, BaseFilter::absorb_offset_steer
// @bounds estimator offset any f64 with |offset| <= 10^9 s, frequency any finite f64, delay any f64 with |delay| <= 10^9 s, step threshold 1 ms, steer time 2 s, deadzone any value in [0, 4], bound / max steer symbolic; failing clock
// @assume InnerFilter::progress_filtertime replaced by progress_filtertime_offset_only: new offset arbitrary (non-NaN), frequency and delay unchanged (exact for a finite state), filter time advanced; otherwise as c13_change_frequency
#[kani::proof]
#[kani::unwind(5)]
#[kani::stub(InnerFilter::progress_filtertime, progress_filtertime_offset_only)]
fn c13_steer_and_step() { steer_case(any_config(), 0) }

/// `part`: 0 = whole input space; 1 / 2 = case split on the sign of the estimated offset
fn steer_case(mut config: KalmanConfiguration, part: u8) {
    // any non-negative deadzone: the deadzone shrinks the slew, it must never shrink a step
    config.deadzone = any_finite();
    kani::assume(config.deadzone >= 0.0 && config.deadzone <= 4.0);
    let ft = crate::verif_root::gen::any_time();
    let ret = crate::verif_root::gen::any_time();
    kani::assume(ret >= ft);
    kani::assume(ft >= Time::from_secs(2_000_000_000));
    let cur = any_finite();
    kani::assume(within(cur, config.max_freq_offset));
    let inner = any_inner(ft);
    let error = inner.state.ventry(0);
    kani::assume(error.abs() <= 1.0e9);
    if part != 0 {
        kani::assume((error >= 0.0) == (part == 1));
    }
    // the mean delay estimate is reported back as a Duration: keep it representable (finite estimator state)
    kani::assume(inner.state.ventry(2).abs() <= 1.0e9);
    // finite estimator state (the refined propagation stub is exact in frequency and delay only then)
    kani::assume(inner.state.ventry(1).is_finite());
    let mut f = mk(config, Some(inner), Some(cur));
    let mut clock = CmdClock::any(ret);
    let _u = f.steer(&mut clock);
    let threshold = config.step_threshold; // 1 ms
    if clock.n_step > 0 {
        assert!(clock.n_step == 1 && clock.n_freq == 0, "a step and a slew in one decision");
        // at least the threshold in magnitude (up to the 2^-32 s quantisation of Duration::from_seconds: < 1 ns)
        assert!(clock.last_step.abs() + Duration::from_nanos(1) >= threshold, "C13: step smaller than the step threshold");
        assert!((clock.last_step < Duration::ZERO) == (error > 0.0), "step direction opposes the offset");
    } else {
        assert!(clock.n_freq == 1);
        assert!(within(clock.last_freq, config.max_freq_offset), "C13: frequency command not finite or beyond the configured maximum");
        assert!(error.abs() < 1.0e-3 + 1.0e-12, "slewing although the offset exceeds the step threshold");
    }
    kani::cover!(clock.n_step == 1, "stepped");
    kani::cover!(clock.n_freq == 1, "slewed");
}

/// `part`: 0 = whole input space; 1 / 2 = case split on the sign of the current frequency
fn final_command(update: bool, part: u8, config: KalmanConfiguration) {
    let ft = crate::verif_root::gen::any_time();
    let ret = crate::verif_root::gen::any_time();
    kani::assume(ret >= ft);
    let cur = any_finite();
    kani::assume(within(cur, config.max_freq_offset));
    if part != 0 {
        kani::assume((cur >= 0.0) == (part == 1));
    }
    let mut inner = any_inner(ft);
    if update {
        // `update` reports the mean delay estimate back as a Duration: keep it representable
        inner.state = Vector::new_vector([inner.state.ventry(0), inner.state.ventry(1), 1.0e-6]);
        // finite estimator state: the refined propagation stub (offset arbitrary, frequency and delay kept) is exact only then
        kani::assume(inner.state.ventry(0).is_finite() && inner.state.ventry(1).is_finite());
    }
    let had = kani::any::<bool>();
    let mut f = mk(config, Some(inner), if had { Some(cur) } else { None });
    let mut clock = CmdClock::any(ret);
    if update {
        let u = f.update(&mut clock);
        assert!(u.next_update.is_none());
    } else {
        // the filter value is consumed: no further command can come from it
        f.demobilize(&mut clock);
    }
    assert!(clock.n_step == 0 && clock.n_freq == (had as u32), "C13: at most one final frequency command when the port stops being slave");
    if had {
        assert!(within(clock.last_freq, config.max_freq_offset), "C13: final frequency command beyond the configured maximum");
    }
    kani::cover!(had, "final command issued");
}

// @harness c13_demobilize_pos
// @props C13:quick C08:thorough C03:quick
// @tier quick
// @stubbing yes
// @timeout 1800
// @mem 12
// @functions KalmanFilter::demobilize, KalmanFilter::change_frequency, clamp_adjustment
// @bounds case split (parts _pos and _neg cover the whole input space): current frequency >= 0; default servo configuration. as c13_change_frequency; the filter is consumed by the call
// @assume as c13_change_frequency
#[kani::proof]
#[kani::unwind(5)]
#[kani::stub(InnerFilter::progress_filtertime, progress_filtertime_havoc)]
fn c13_demobilize_pos() { final_command(false, 1, KalmanConfiguration::default()) }

// @harness c13_demobilize_neg
// @props C13:quick C08:thorough C03:quick
// @tier quick
// @stubbing yes
// @timeout 1800
// @mem 12
// @functions KalmanFilter::demobilize, KalmanFilter::change_frequency, clamp_adjustment
// @bounds case split (parts _pos and _neg cover the whole input space): current frequency < 0; default servo configuration. as c13_change_frequency; the filter is consumed by the call
// @assume as c13_change_frequency
#[kani::proof]
#[kani::unwind(5)]
#[kani::stub(InnerFilter::progress_filtertime, progress_filtertime_havoc)]
fn c13_demobilize_neg() { final_command(false, 2, KalmanConfiguration::default()) }

// @harness c13_demobilize_any_config
// @props C13:thorough C03:thorough
// @tier thorough
// @stubbing yes
// @timeout 1800
// @mem 12
// @functions KalmanFilter::demobilize, KalmanFilter::change_frequency, clamp_adjustment
// @bounds as c13_demobilize_pos / _neg together, with symbolic max_freq_offset and max_steer (0, 10^6]
// @assume as c13_change_frequency
#[kani::proof]
#[kani::unwind(5)]
#[kani::stub(InnerFilter::progress_filtertime, progress_filtertime_havoc)]
fn c13_demobilize_any_config() { final_command(false, 0, any_config()) }

// @harness c13_update_pos
// @props C13:thorough C03:thorough
// @tier thorough
// @stubbing yes
// @timeout 3600
// @mem 12
// @functions KalmanFilter::update, KalmanFilter::change_frequency, Duration::from_seconds
// @bounds symbolic max_freq_offset / max_steer, finite estimator offset and frequency, concrete mean-delay estimate (1 us), current frequency >= 0 within the bound, failing clock (case split with c13_update_neg)
// @assume InnerFilter::progress_filtertime replaced by progress_filtertime_offset_only (new offset arbitrary non-NaN, frequency and delay unchanged - exact for a finite state - filter time advanced)
#[kani::proof]
#[kani::unwind(5)]
#[kani::stub(InnerFilter::progress_filtertime, progress_filtertime_offset_only)]
fn c13_update_pos() { final_command(true, 1, any_config()) }

// @harness c13_update_neg
// @props C13:thorough C03:thorough
// @tier thorough
// @stubbing yes
// @timeout 3600
// @mem 12
// @functions KalmanFilter::update, KalmanFilter::change_frequency, Duration::from_seconds
// @bounds as c13_update_pos with a current frequency < 0 (the two parts cover the whole input space)
// @assume as c13_update_pos
#[kani::proof]
#[kani::unwind(5)]
#[kani::stub(InnerFilter::progress_filtertime, progress_filtertime_offset_only)]
fn c13_update_neg() { final_command(true, 2, any_config()) }

// @harness c13_progress_filtertime_backwards
// @props C13:quick C03:quick
// @tier quick
// @timeout 900
// @functions InnerFilter::progress_filtertime, BaseFilter::absorb_frequency_steer
// @bounds the real progress_filtertime with a clock-returned time earlier than the filter time (an event time shifted ahead by a negative correctionField); estimator state concrete
#[kani::proof]
#[kani::unwind(5)]
fn c13_progress_filtertime_backwards() {
    let config = KalmanConfiguration::default();
    let ft = Time::from_secs(1000);
    let mut b = BaseFilter(Some(InnerFilter::new(0.0, ft, &config)));
    let t = crate::verif_root::gen::any_time();
    kani::assume(t < ft);
    b.absorb_frequency_steer(1.0, t, 1e-16, &config);
    // no panic; the filter time must not run backwards
    assert!(b.0.as_ref().unwrap().filter_time == ft);
    kani::cover!(true, "returned");
}

/// Over-approximation of `InnerFilter::absorb_measurement` (the Kalman update, ~50 f64 multiplications):
/// arbitrary new non-NaN state. The update does not issue clock commands.
fn absorb_measurement_havoc(f: &mut InnerFilter, _v: Vector<1>, t: Matrix<1, 3>, _n: Matrix<1, 1>) {
    // a peer-delay measurement (H = [0 0 1]) only moves the delay component: the cross-covariances between
    // delay and (offset, frequency) are exactly zero in a filter that never absorbed an offset measurement
    assert!(t.entry(0, 0) == 0.0 && t.entry(0, 1) == 0.0, "harness: only peer-delay measurements expected here");
    let d = any_finite();
    kani::assume(d.abs() <= 1.0e9);
    f.state = Vector::new_vector([f.state.ventry(0), f.state.ventry(1), d]);
}

/// progress of a filter whose offset and frequency components are zero: they stay zero
fn progress_filtertime_keep_zero(f: &mut InnerFilter, time: Time, _wander: f64, _config: &KalmanConfiguration) {
    if time < f.filter_time {
        return;
    }
    f.filter_time = time;
}

// @harness c08_kalman_peer_delay_only_never_steers
// @props C08:quick C13:thorough C03:thorough
// @tier quick
// @stubbing yes
// @timeout 1800
// @mem 10
// @functions KalmanFilter::measurement, KalmanFilter::steer, KalmanFilter::change_frequency, KalmanFilter::update_wander, MeasurementErrorEstimator::absorb_measurement, BaseFilter::absorb_peer_delay
// @bounds the servo of a port that is not slave: cur_frequency None (freshly created by set_forced_port_state / Port::new), estimator absent or with zero offset / frequency components and an arbitrary delay estimate (|d| <= 10^9 s), one measurement that carries only a peer delay (the only kind a non-slave port produces), |peer delay| <= 10^9 s
// @assume Inv_K: a port that is not slave holds a filter whose cur_frequency is None (established by the filter swap in set_forced_port_state, counted in c12_announce_receipt_timer / c05_bmca_two_ports; preserved by this harness)
// @assume InnerFilter::progress_filtertime and InnerFilter::absorb_measurement replaced by abstractions that keep the zero offset / frequency components (exact for H = [0 0 1] with zero cross-covariances) and give the delay component an arbitrary bounded value
#[kani::proof]
#[kani::unwind(5)]
#[kani::stub(InnerFilter::progress_filtertime, progress_filtertime_keep_zero)]
#[kani::stub(InnerFilter::absorb_measurement, absorb_measurement_havoc)]
fn c08_kalman_peer_delay_only_never_steers() {
    let config = KalmanConfiguration::default();
    let ft = crate::verif_root::gen::any_time();
    let has_inner: bool = kani::any();
    // estimator of a port that never was slave since the filter was created: offset and frequency components are
    // exactly zero (nothing but peer delays was absorbed), the delay component is arbitrary
    let mut inner = any_inner(ft);
    let d0 = any_finite();
    kani::assume(d0.abs() <= 1.0e9);
    inner.state = Vector::new_vector([0.0, 0.0, d0]);
    let mut f = mk(config, if has_inner { Some(inner) } else { None }, None);
    let ev = crate::verif_root::gen::any_time();
    let pd = crate::verif_root::gen::any_duration_bits(96);
    kani::assume(pd.abs() <= Duration::from_secs(1_000_000_000));
    let m = Measurement { event_time: ev, offset: None, delay: None, peer_delay: Some(pd), raw_sync_offset: None, raw_delay_offset: None };
    let mut clock = CmdClock::any(ev);
    let _u = f.measurement(m, &mut clock);
    assert!(clock.n_freq == 0 && clock.n_step == 0, "C08: the servo of a port that is not slave adjusted the clock");
    assert!(f.cur_frequency.is_none(), "Inv_K not preserved: a peer-delay-only measurement initialised the frequency book-keeping");
    // (a step is possible only if the estimator offset exceeds the threshold, which a filter that never saw an offset measurement does not reach: offset state stays 0)
    kani::cover!(has_inner, "estimator already running");
    kani::cover!(!has_inner, "first measurement");
}
