//! C05 layer 1: `ComparisonDataset::compare` against the reference comparison, all fields symbolic.
use super::*;
use crate::verif_root::refbmca::*;
use crate::datastructures::common::ClockAccuracy;

fn any_ds() -> (ComparisonDataset, RefDs) {
    let acc: u8 = kani::any();
    let ds = ComparisonDataset {
        gm_priority_1: kani::any(),
        gm_identity: ClockIdentity(kani::any()),
        gm_clock_quality: ClockQuality {
            clock_class: kani::any(),
            clock_accuracy: ClockAccuracy::from_primitive(acc),
            offset_scaled_log_variance: kani::any(),
        },
        gm_priority_2: kani::any(),
        steps_removed: kani::any(),
        identity_of_senders: ClockIdentity(kani::any()),
        identity_of_receiver: PortIdentity { clock_identity: ClockIdentity(kani::any()), port_number: kani::any() },
    };
    let r = RefDs {
        p1: ds.gm_priority_1,
        class: ds.gm_clock_quality.clock_class,
        // the decoded accuracy's octet: reserved octets are all normalised to 0x00 by the decoder
        acc: ds.gm_clock_quality.clock_accuracy.to_primitive(),
        var: ds.gm_clock_quality.offset_scaled_log_variance,
        p2: ds.gm_priority_2,
        gm: ds.gm_identity.0,
        steps: ds.steps_removed,
        sender: ds.identity_of_senders.0,
        recv_clock: ds.identity_of_receiver.clock_identity.0,
        recv_port: ds.identity_of_receiver.port_number,
    };
    (ds, r)
}

fn code(o: DatasetOrdering) -> u8 {
    match o {
        DatasetOrdering::Better => A_BETTER,
        DatasetOrdering::BetterByTopology => A_BETTER_TOPO,
        DatasetOrdering::Error1 => ERROR_1,
        DatasetOrdering::Error2 => ERROR_2,
        DatasetOrdering::WorseByTopology => B_BETTER_TOPO,
        DatasetOrdering::Worse => B_BETTER,
    }
}

// @harness c05_compare_matches_reference
// @props C05:quick
// @tier quick
// @timeout 300
// @functions ComparisonDataset::compare, compare_same_identity, compare_different_identity, ClockAccuracy::cmp_numeric
// @bounds both data sets fully symbolic: priority1, class, accuracy octet (all 256), variance, priority2, 8-byte GM / sender / receiver identities, stepsRemoved (all 65536), receiver port number
// @assume reference = Figures 34/35 as transcribed in harness/root/refbmca.rs (identity comparisons on clockIdentity, as statime reads the figure)
#[kani::proof]
#[kani::unwind(9)]
fn c05_compare_matches_reference() {
    let (a, ra) = any_ds();
    let (b, rb) = any_ds();
    let got = code(a.compare(&b));
    let want = ref_compare(&ra, &rb);
    assert!(got == want, "compare() differs from the reference data set comparison");
    kani::cover!(got == A_BETTER, "better");
    kani::cover!(got == A_BETTER_TOPO, "better by topology");
    kani::cover!(got == ERROR_1, "error-1");
    kani::cover!(got == ERROR_2, "error-2");
    kani::cover!(got == B_BETTER_TOPO, "worse by topology");
    kani::cover!(got == B_BETTER, "worse");
}

// @harness c05_compare_antisymmetric
// @props C05:quick
// @tier quick
// @timeout 300
// @functions ComparisonDataset::compare, DatasetOrdering::as_ordering
// @bounds both data sets fully symbolic
#[kani::proof]
#[kani::unwind(9)]
fn c05_compare_antisymmetric() {
    let (a, _) = any_ds();
    let (b, _) = any_ds();
    let x = a.compare(&b);
    let y = b.compare(&a);
    assert!(x.as_ordering() == y.as_ordering().reverse(), "compare is not antisymmetric");
    // the six-valued result mirrors too
    assert!(code(x) == 5 - code(y) || (code(x) == code(y) && (code(x) == ERROR_1 || code(x) == ERROR_2)));
    kani::cover!(x.as_ordering() == core::cmp::Ordering::Equal, "equal pair");
    kani::cover!(x.as_ordering() == core::cmp::Ordering::Greater, "ordered pair");
}

// @harness c05_as_ordering_total
// @props C05:quick
// @tier quick
// @timeout 120
// @functions DatasetOrdering::as_ordering
// @bounds all six ordering values
#[kani::proof]
fn c05_as_ordering_total() {
    let k: u8 = kani::any();
    kani::assume(k < 6);
    let o = match k {
        0 => DatasetOrdering::Better,
        1 => DatasetOrdering::BetterByTopology,
        2 => DatasetOrdering::Error1,
        3 => DatasetOrdering::Error2,
        4 => DatasetOrdering::WorseByTopology,
        _ => DatasetOrdering::Worse,
    };
    let ord = o.as_ordering();
    assert!((k <= 1) == (ord == core::cmp::Ordering::Greater));
    assert!((k >= 4) == (ord == core::cmp::Ordering::Less));
    kani::cover!(ord == core::cmp::Ordering::Equal, "error codes map to Equal");
}
