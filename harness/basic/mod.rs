//! C13 (basic filter half): commands are always finite. Child of `filters::basic`.
#![allow(dead_code, unused_imports)]
use super::*;
use crate::config::TimePropertiesDS;
use crate::verif_root::gen::*;

pub(crate) struct CmdClock {
    pub n_freq: u32,
    pub all_finite: bool,
    pub n_step: u32,
    pub fail: bool,
}

impl Clock for CmdClock {
    type Error = ();
    fn now(&self) -> Time { Time::default() }
    fn step_clock(&mut self, _o: Duration) -> Result<Time, ()> { self.n_step += 1; if self.fail { Err(()) } else { Ok(Time::default()) } }
    fn set_frequency(&mut self, ppm: f64) -> Result<Time, ()> {
        self.n_freq += 1;
        if !ppm.is_finite() { self.all_finite = false; }
        if self.fail { Err(()) } else { Ok(Time::default()) }
    }
    fn set_properties(&mut self, _t: &TimePropertiesDS) -> Result<(), ()> { Ok(()) }
}

fn bounded_duration() -> Duration {
    // +-10^9 s
    let d = any_duration_bits(96);
    kani::assume(d.abs() <= Duration::from_secs(1_000_000_000));
    d
}

// @harness c13_basic_filter_finite
// @props C13:quick C03:quick
// @tier quick
// @timeout 2400
// @mem 14
// @functions BasicFilter::measurement
// @bounds one measurement from an arbitrary filter state with a previous step recorded: previous event time / offset / correction and the new event time / offset arbitrary (event times in [0, 2^63 ns), offsets within +-10^9 s), gain 0.5, current frequency and confidences finite; failing clock
// @assume the two measurements have different master-side timestamps (interval_master != 0); equal ones are the known-finding twin c13_basic_filter_equal_event_times
#[kani::proof]
#[kani::unwind(5)]
fn c13_basic_filter_finite() { basic_case(false) }

// @harness c13_basic_filter_equal_event_times
// @props C13:quick C03:quick
// @tier quick
// @timeout 2400
// @mem 14
// @functions BasicFilter::measurement
// @bounds as c13_basic_filter_finite, restricted to two measurements with equal master-side timestamps (interval_master == 0: duplicated or crafted Sync)
#[kani::proof]
#[kani::unwind(5)]
fn c13_basic_filter_equal_event_times() { basic_case(true) }

fn basic_case(equal: bool) {
    let mut f = BasicFilter::new(0.5);
    let last_t = any_time();
    let last_off = bounded_duration();
    let last_corr = bounded_duration();
    f.last_step = Some(PrevStepData { event_time: last_t, offset: last_off, correction: last_corr });
    let fc: f64 = kani::any();
    kani::assume(fc.is_finite() && fc > 0.0 && fc <= 1.0);
    f.freq_confidence = fc;
    let cf: f64 = kani::any();
    kani::assume(cf.is_finite() && cf.abs() <= 1.0e6);
    f.cur_freq = cf;
    f.offset_confidence = Duration::from_nanos(1_000_000_000);
    let t = any_time();
    let off = bounded_duration();
    kani::assume(t >= Time::from_secs(2_000_000_000) && last_t >= Time::from_secs(2_000_000_000));
    let master_now = t - off;
    let master_then = last_t - last_off;
    kani::assume((master_now == master_then) == equal);
    let m = Measurement { event_time: t, offset: Some(off), delay: None, peer_delay: None, raw_sync_offset: None, raw_delay_offset: None };
    let mut clock = CmdClock { n_freq: 0, all_finite: true, n_step: 0, fail: kani::any() };
    let _ = f.measurement(m, &mut clock);
    assert!(clock.all_finite, "C13: the basic filter programmed a non-finite frequency");
    assert!(f.cur_freq.is_finite(), "C13: the basic filter's frequency book-keeping became non-finite");
    kani::cover!(clock.n_freq == 1, "frequency command issued");
}
