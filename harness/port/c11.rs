//! C11: Announces advertise the instance's current view of the hierarchy (send side and the
//! data-set update on an Announce from the parent). Also the send-side halves of C15 (path trace TLV,
//! forwarded TLVs) and C12 (announce timer re-armed).
use super::common::*;
use super::super::state::PortState;
use super::super::*;
use crate::config::LeapIndicator;
use crate::datastructures::common::{Tlv, TlvType};
use crate::datastructures::messages::verif_messages::{ser_body, ser_buf, ser_count, ser_header, ser_suffix_len, ser_tlv, ser_tlv_count};
use crate::datastructures::messages::{AnnounceMessage, Header, Message, MessageBody, PtpVersion};
use crate::verif_root::gen::*;

fn setup<'a>(state: &'a DepthCell) -> (RPort<'a>, PortCfg, u8) {
    let cfg = PortCfg::any();
    let ps = any_port_state(any_port_identity());
    let code = state_code(&ps);
    let mut port = mk_running(state, cfg, RecClock::quiet(), any_filter_cfg(), ps);
    havoc_small(&mut port);
    port.peer_delay_state = any_peer_delay_state();
    (port, cfg, code)
}

/// the Announce the instance must send right now, field by field from its data sets
fn announce_matches_datasets(h: &Header, m: &AnnounceMessage, st: &PtpInstanceState) -> bool {
    let tp = &st.time_properties_ds;
    h.leap59 == (tp.leap_indicator == LeapIndicator::Leap59)
        && h.leap61 == (tp.leap_indicator == LeapIndicator::Leap61)
        && h.current_utc_offset_valid == tp.current_utc_offset.is_some()
        && (tp.current_utc_offset.is_none() || m.current_utc_offset == tp.current_utc_offset.unwrap())
        && h.ptp_timescale == tp.ptp_timescale
        && h.time_tracable == tp.time_traceable
        && h.frequency_tracable == tp.frequency_traceable
        && m.time_source == tp.time_source
        && m.grandmaster_identity == st.parent_ds.grandmaster_identity
        && m.grandmaster_clock_quality == st.parent_ds.grandmaster_clock_quality
        && m.grandmaster_priority_1 == st.parent_ds.grandmaster_priority_1
        && m.grandmaster_priority_2 == st.parent_ds.grandmaster_priority_2
        && m.steps_removed == st.current_ds.steps_removed
        && m.header == *h
}

// @harness c11_send_announce_pt
// @props C11:quick C15:quick C08:quick C12:quick C03:thorough C17:thorough
// @tier quick
// @variant dl128_lists2
// @stubbing yes
// @timeout 1800
// @mem 14
// @functions Port::handle_announce_timer, Port::send_announce, Message::announce, TlvSetBuilder::add, TlvSetBuilder::build, Tlv::serialize, SequenceIdGenerator::generate
// @bounds one step from an arbitrary port state (all five); arbitrary parentDS / currentDS (stepsRemoved <= 255) / timePropertiesDS (every leap / utc / traceable / timescale / time-source combination); path trace on with one symbolic entry in the list (case split with c11_send_announce_nopt); no forwarded TLVs; announce interval 2^0 s
// @assume MAX_DATA_LEN scaled 1024 -> 128 (margin 64, path capacity 16) and list capacities 8 -> 2 in the scratch copy
// @assume Message::serialize replaced by the recording stub (typed oracle); octet-level encoding of any typed Announce is decided by c04_encode_announce, the TLV suffix octets by the library's own iterator read-back in the stub
// @assume Interval::as_core_duration replaced by its integer equivalent (validated for interval 0)
#[kani::proof]
#[kani::unwind(20)]
#[kani::stub(crate::datastructures::messages::Message::serialize, crate::datastructures::messages::verif_messages::serialize_rec)]
#[kani::stub(crate::time::Interval::as_core_duration, crate::verif_root::stubs::as_core_duration_int)]
fn c11_send_announce_pt() { send_announce_case(true) }

fn send_announce_case(path_trace: bool) {
    let state = any_state(1);
    state.poke().path_trace_ds.enable = path_trace;
    let (mut port, cfg, code) = setup(&state);
    let seq0 = seq_peek(&port.announce_seq_ids);
    let before = snapshot(&port);
    let (d, _) = drain(port.handle_announce_timer(&mut NoForwardedTLVs));
    assert!(d.send_event == 0 && !d.overflow);
    if code == ST_MASTER {
        assert!(d.n == 2 && d.send_general == 1 && d.reset_announce == 1, "C11/C12: master must emit an Announce and re-arm the announce timer");
        assert!(d.dur_announce == core::time::Duration::new(1, 0), "C12: announce timer re-armed with the configured interval");
        let st = state.peek();
        let h = ser_header().unwrap();
        assert!(h.source_port_identity == cfg.identity() && h.domain_number == st.default_ds.domain_number && h.sdo_id == st.default_ds.sdo_id
            && Some(h.version) == PtpVersion::new(2, cfg.minor as u8) && h.sequence_id == seq0, "C10/C11: Announce header");
        assert!(seq_peek(&port.announce_seq_ids) == seq0.wrapping_add(1), "C10: Announce sequence ids increase by one modulo 2^16");
        match ser_body() {
            Some(MessageBody::Announce(m)) => assert!(announce_matches_datasets(&h, &m, st), "C11: Announce does not carry the instance's current data sets"),
            _ => panic!("C08/C11: announce timer must emit an Announce"),
        }
        let (addr, blen) = ser_buf();
        assert!(ser_count() == 1 && addr == port.packet_buffer.as_ptr() as usize && blen == MAX_DATA_LEN);
        // C15: path trace TLV = received path ++ own identity
        if st.path_trace_ds.enable {
            assert!(ser_tlv_count() == 1 && ser_suffix_len() == 4 + 16 && d.general_len == 64 + 20, "C15: path trace TLV missing or malformed");
            let (ty, l, v) = ser_tlv(0);
            assert!(ty == 0x0008 && l == 16, "C15: PATH_TRACE TLV type / length");
            let e0 = st.path_trace_ds.list[0].0;
            let own = st.default_ds.clock_identity.0;
            assert!(v[0] == e0[0] && v[1] == e0[1] && v[2] == e0[2] && v[3] == e0[3] && v[4] == e0[4] && v[5] == e0[5] && v[6] == e0[6] && v[7] == e0[7],
                "C15: emitted path does not start with the path received from the parent");
            assert!(v[8] == own[0] && v[9] == own[1] && v[10] == own[2] && v[11] == own[3] && v[12] == own[4] && v[13] == own[5] && v[14] == own[6] && v[15] == own[7],
                "C15: own identity not appended to the path");
        } else {
            assert!(ser_tlv_count() == 0 && ser_suffix_len() == 0 && d.general_len == 64, "C15: TLV emitted although nothing is to be forwarded");
        }
        assert!(d.general_len <= MAX_DATA_LEN);
        kani::cover!(st.path_trace_ds.enable == path_trace, "path trace as configured for this part");
        kani::cover!(st.time_properties_ds.current_utc_offset.is_some() && !st.time_properties_ds.ptp_timescale, "utc offset valid on an ARB timescale");
        kani::cover!(seq0 == 65535, "sequence wrap");
    } else {
        assert!(d.none() && ser_count() == 0 && snapshot(&port) == before, "C08: Announce emitted / state changed by a non-master port");
    }
    assert!(port.instance_state.is_free());
    kani::cover!(code == ST_MASTER, "master emits");
    kani::cover!(code != ST_MASTER, "non-master silent");
    core::mem::forget(port);
}

// @harness c11_send_announce_nopt
// @props C11:quick C15:quick C08:quick C12:quick C03:thorough C17:thorough
// @tier quick
// @variant dl128_lists2
// @stubbing yes
// @timeout 1800
// @mem 14
// @functions Port::handle_announce_timer, Port::send_announce, Message::announce, TlvSetBuilder::add, TlvSetBuilder::build, Tlv::serialize, SequenceIdGenerator::generate
// @bounds one step from an arbitrary port state (all five); arbitrary parentDS / currentDS (stepsRemoved <= 255) / timePropertiesDS (every leap / utc / traceable / timescale / time-source combination); path trace off (case split with c11_send_announce_pt); no forwarded TLVs; announce interval 2^0 s
// @assume MAX_DATA_LEN scaled 1024 -> 128 (margin 64, path capacity 16) and list capacities 8 -> 2 in the scratch copy
// @assume Message::serialize replaced by the recording stub (typed oracle); octet-level encoding of any typed Announce is decided by c04_encode_announce, the TLV suffix octets by the library's own iterator read-back in the stub
// @assume Interval::as_core_duration replaced by its integer equivalent (validated for interval 0)
#[kani::proof]
#[kani::unwind(20)]
#[kani::stub(crate::datastructures::messages::Message::serialize, crate::datastructures::messages::verif_messages::serialize_rec)]
#[kani::stub(crate::time::Interval::as_core_duration, crate::verif_root::stubs::as_core_duration_int)]
fn c11_send_announce_nopt() { send_announce_case(false) }

/// TLV provider that honours exactly the documented contract of `ForwardedTLVProvider::next_if_smaller`
/// ("provide the next available TLV, unless it is larger than max_size") over a queue of two TLVs.
struct TwoTlvs<'a> {
    buf: [&'a [u8]; 2],
    ty: [TlvType; 2],
    len: [usize; 2],
    sender: [PortIdentity; 2],
    next: usize,
    n: usize,
    calls: u32,
}

impl ForwardedTLVProvider for TwoTlvs<'_> {
    fn next_if_smaller(&mut self, max_size: usize) -> Option<ForwardedTLV<'_>> {
        self.calls += 1;
        if self.next >= self.n {
            return None;
        }
        let i = self.next;
        if 4 + self.len[i] > max_size {
            return None;
        }
        self.next += 1;
        Some(ForwardedTLV { tlv: Tlv { tlv_type: self.ty[i], value: (&self.buf[i][..self.len[i]]).into() }, sender_identity: self.sender[i] })
    }
}

fn forward_case(l0: usize, l1: usize) {
    use crate::datastructures::common::verif_tlv::{add_cap, add_count, add_tlv};
    let state = any_state(0);
    state.poke().path_trace_ds.enable = kani::any();
    let cfg = PortCfg::plain();
    let mut port = mk_running(&state, cfg, RecClock::quiet(), any_filter_cfg(), PortState::Master);
    let parent = state.peek().parent_ds.parent_port_identity;
    let other = any_port_identity();
    kani::assume(other != parent);
    let mut vbuf = [0u8; 64];
    vbuf[0] = kani::any();
    let mut wbuf = [0u8; 64];
    wbuf[0] = kani::any();
    let from_parent = [kani::any::<bool>(), kani::any::<bool>()];
    // TLV types: ORGANIZATION_EXTENSION_PROPAGATE or PATH_TRACE (the two classes the send side distinguishes)
    let tyv: [u16; 2] = [if kani::any() { 0x4000 } else { 0x0008 }, if kani::any() { 0x4000 } else { 0x0008 }];
    let mut prov = TwoTlvs {
        buf: [&vbuf, &wbuf],
        ty: [TlvType::from_primitive(tyv[0]), TlvType::from_primitive(tyv[1])],
        len: [l0, l1],
        sender: [if from_parent[0] { parent } else { other }, if from_parent[1] { parent } else { other }],
        next: 0,
        n: 2,
        calls: 0,
    };
    let pt_on = state.peek().path_trace_ds.enable;
    let (d, _) = drain(port.handle_announce_timer(&mut prov));
    assert!(d.n == 2 && d.send_general == 1 && d.reset_announce == 1 && !d.overflow, "C15: forwarding made the Announce fail to be sent");
    // reference accounting: room = MAX_DATA_LEN - 64, minus own path trace TLV (4 + 8) when enabled (list is empty)
    let mut room = MAX_DATA_LEN - 64;
    let mut expect_tlvs = 0usize;
    let mut expect_len = 0usize;
    if pt_on { room -= 12; expect_tlvs += 1; expect_len += 12; }
    let mut fwd = [false, false];
    let mut handed = 0usize;
    let mut k = 0;
    while k < 2 {
        let size = 4 + prov.len[k];
        if size <= room {
            // handed over by the provider (and thereby consumed from the queue) ...
            handed += 1;
            let keep = from_parent[k] && !(pt_on && tyv[k] == 0x0008);
            // ... and appended iff it comes from the parent and is not a PATH_TRACE TLV we replaced
            if keep { fwd[k] = true; expect_tlvs += 1; expect_len += size; room -= size; }
        } else {
            break; // the provider keeps it (and everything behind it) for a later Announce
        }
        k += 1;
    }
    assert!(prov.next == handed, "C15: a TLV was taken from the provider although it does not fit / left although it fits");
    assert!(add_count() == expect_tlvs && ser_suffix_len() == expect_len, "C15: forwarded TLV set differs from (parent TLVs that fit, in order, once)");
    assert!(d.general_len == 64 + expect_len && d.general_len <= MAX_DATA_LEN, "C15: frame exceeds the maximum size / wrong length");
    assert!(expect_tlvs == 0 || add_cap() >= MAX_DATA_LEN - 64);
    // identity, content and order of the TLVs handed to the builder
    let base = if pt_on { 1 } else { 0 };
    if pt_on {
        let (ty, l, _, _) = add_tlv(0);
        assert!(ty == 0x0008 && l == 8, "C15: own PATH_TRACE TLV must come first");
    }
    if fwd[0] {
        let (ty, l, p, b0) = add_tlv(base);
        assert!(ty == tyv[0] && l == l0 && p == vbuf.as_ptr() as usize && (l0 == 0 || b0 == vbuf[0]), "C15: first forwarded TLV modified");
    }
    if fwd[1] {
        let (ty, l, p, b0) = add_tlv(base + (fwd[0] as usize));
        assert!(ty == tyv[1] && l == l1 && p == wbuf.as_ptr() as usize && (l1 == 0 || b0 == wbuf[0]), "C15: second forwarded TLV modified / out of order");
    }
    kani::cover!(fwd[0] && fwd[1], "two TLVs forwarded");
    kani::cover!(fwd[0] && !fwd[1], "second TLV not forwarded");
    kani::cover!(!from_parent[0], "TLV of another sender dropped");
    kani::cover!(handed == 1, "second TLV stays queued");
    core::mem::forget(port);
}

// @harness c15_forward_any_lengths
// @props C15:quick C03:thorough C17:quick
// @tier quick
// @variant dl128_lists2
// @features none
// @stubbing yes
// @timeout 2700
// @mem 8
// @functions Port::send_announce, ForwardedTLV::size, Tlv::wire_size, TlvSetBuilder::build, Message::wire_size
// @bounds master port, provider queue of two TLVs with arbitrary even value lengths 0..=62 each (every relation to the room of 64 / 52 octets: smaller, exactly fitting, larger), TLV types PATH_TRACE or ORGANIZATION_EXTENSION_PROPAGATE, each from the parent or from another sender, path trace on/off (empty received path)
// @assume provider honours the documented contract of next_if_smaller (returns the next TLV iff its wire size <= max_size); MAX_DATA_LEN scaled to 128 (room 64); recording stubs for Message::serialize and TlvSetBuilder::add (octets: c04_encode_announce, c15_tlv_builder_readback)
#[kani::proof]
#[kani::unwind(20)]
#[kani::stub(crate::datastructures::messages::Message::serialize, crate::datastructures::messages::verif_messages::serialize_rec_lite)]
#[kani::stub(crate::datastructures::common::TlvSetBuilder::add, crate::datastructures::common::verif_tlv::add_rec)]
#[kani::stub(crate::time::Interval::as_core_duration, crate::verif_root::stubs::as_core_duration_int)]
fn c15_forward_any_lengths() {
    let l0: usize = kani::any();
    let l1: usize = kani::any();
    kani::assume(l0 <= 62 && l0 % 2 == 0 && l1 <= 62 && l1 % 2 == 0);
    forward_case(l0, l1)
}
