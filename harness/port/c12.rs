//! C12 (no stuck states): timer handlers re-arm what keeps the new state alive; also C08 (role guards on
//! Delay_Req), C14 (request bookkeeping), C10 (sequence ids of Delay_Req / Pdelay_Req).
use super::common::*;
use super::super::state::{DelayState, PortState};
use super::super::*;
use super::super::actions::TimestampContextInner;
use crate::datastructures::messages::verif_messages::{ser_body, ser_buf, ser_count, ser_header, ser_suffix_len};
use crate::datastructures::messages::{MessageBody, PtpVersion};
use crate::verif_root::gen::*;
use crate::verif_root::stubs::announce_duration_in_range;

fn setup<'a>(state: &'a DepthCell) -> (RPort<'a>, PortCfg, u8) {
    let cfg = PortCfg::any();
    let ps = any_port_state(any_port_identity());
    let code = state_code(&ps);
    let mut port = mk_running(state, cfg, RecClock::quiet(), any_filter_cfg(), ps);
    havoc_small(&mut port);
    port.peer_delay_state = any_peer_delay_state();
    (port, cfg, code)
}

// @harness c12_announce_receipt_timer
// @props C12:quick C08:quick C03:quick C17:quick
// @tier quick
// @variant lists2
// @stubbing yes
// @timeout 1500
// @functions Port::handle_announce_receipt_timer, Port::set_forced_port_state, PortConfig::announce_duration
// @bounds one step from an arbitrary port state (all five, Slave with arbitrary slots), slave-only on/off, arbitrary receipt timeout count, announce interval 2^0 s
// @assume Interval::as_core_duration replaced by its integer equivalent and Duration::mul_f64 by its monotone contract (stubs.rs); the real floating-point announce_duration is compared against the resulting range by c12_announce_duration_real
// @assume core::mem::swap replaced by a loop-free equivalent (common.rs: swap_stub)
#[kani::proof]
#[kani::unwind(9)]
#[kani::stub(crate::time::Interval::as_core_duration, crate::verif_root::stubs::as_core_duration_int)]
#[kani::stub(core::time::Duration::mul_f64, crate::verif_root::stubs::mul_f64_contract)]
#[kani::stub(core::mem::swap, super::common::swap_stub)]
fn c12_announce_receipt_timer() {
    let state = any_state(0);
    let (mut port, _cfg, code) = setup(&state);
    let slave_only = state.peek().default_ds.slave_only;
    let demob0 = demobilized();
    let (d, _) = drain(port.handle_announce_receipt_timer());
    let post = state_code(&port.port_state);
    assert!(d.sends() == 0 && !d.overflow);
    if slave_only {
        assert!(post == ST_LISTENING, "C08/C12: slave-only port must fall back to listening, never master");
        assert!(d.n == 1 && d.reset_receipt == 1, "C12: listening port without an armed receipt timer is stuck");
        assert!(announce_duration_in_range(&port.config, d.dur_receipt), "C12: receipt timeout outside timeout * interval * [1, 2]");
    } else {
        assert!(post == ST_MASTER, "C12: a port that may be master must become master when the receipt timer fires");
        assert!(d.n == 2 && d.reset_announce == 1 && d.reset_sync == 1, "C12: master without armed announce / sync timers is silent forever");
        assert!(d.dur_announce.as_secs() == 0 && d.dur_sync.as_secs() == 0 /* the code builds these with from_secs(0), whose sub-second field Kani does not model */);
    }
    // C08-4 / C13: leaving slave (or faulty) hands the servo its one final command, nothing else touches the clock
    let left = (code == ST_SLAVE || code == ST_FAULTY) && post != code;
    assert!(demobilized() == demob0 + (left as u32), "filter must be demobilized exactly when the port leaves slave/faulty");
    assert!(port.clock.commands() == 0);
    assert!(port.instance_state.is_free());
    kani::cover!(slave_only && code == ST_MASTER, "run-time slave-only demotes master at timeout");
    kani::cover!(!slave_only && code == ST_SLAVE, "slave becomes master at timeout");
    kani::cover!(!slave_only && code == ST_FAULTY, "faulty port at timeout");
    core::mem::forget(port);
}

// @harness c12_delay_request_timer
// @props C12:quick C08:quick C14:quick C10:quick C03:quick C17:quick
// @tier quick
// @variant lists2
// @stubbing yes
// @timeout 1800
// @functions Port::handle_delay_request_timer, Port::send_delay_request, Port::send_e2e_delay_request, Port::send_p2p_delay_request, Message::delay_req, Message::pdelay_req, SequenceIdGenerator::generate
// @bounds one step from an arbitrary port state, E2E or P2P, arbitrary sequence counters and stored exchanges; delay interval 2^0 s; rng word fixed (0x8000...)
// @assume Message::serialize replaced by the recording stub (octets: c04_encode_delay_req / c04_encode_pdelay_req); Interval::as_core_duration by its integer equivalent; Duration::mul_f64 by its monotone contract (stubs.rs)
#[kani::proof]
#[kani::unwind(9)]
#[kani::stub(crate::datastructures::messages::Message::serialize, crate::datastructures::messages::verif_messages::serialize_rec)]
#[kani::stub(crate::time::Interval::as_core_duration, crate::verif_root::stubs::as_core_duration_int)]
#[kani::stub(core::time::Duration::mul_f64, crate::verif_root::stubs::mul_f64_contract)]
fn c12_delay_request_timer() {
    let state = any_state(0);
    let (mut port, cfg, code) = setup(&state);
    let dseq = seq_peek(&port.delay_seq_ids);
    let pseq = seq_peek(&port.pdelay_seq_ids);
    let before = snapshot(&port);
    let (d, ctx) = drain(port.handle_delay_request_timer());
    assert!(d.send_event <= 1 && d.send_general == 0 && !d.overflow, "C10: at most one event send per action set");
    let st = state.peek();
    if cfg.p2p {
        // peer delay requests are sent in every state (also while faulty: that is how the port recovers)
        assert!(d.n == 2 && d.send_event == 1 && d.reset_delay == 1, "C12: P2P port must keep requesting (and re-arm the timer)");
        assert!(d.event_link_local && d.event_len == 54);
        assert!(matches!(ctx, Some(TimestampContext { inner: TimestampContextInner::PDelayReq { id } }) if id == pseq));
        assert!(seq_peek(&port.pdelay_seq_ids) == pseq.wrapping_add(1) && seq_peek(&port.delay_seq_ids) == dseq, "C10: Pdelay_Req sequence ids increase by one");
        assert!(port.peer_delay_state == PeerDelayState::Measuring { id: pseq, responder_identity: None, request_send_time: None,
            request_recv_time: None, response_send_time: None, response_recv_time: None }, "C14: a new request must start from an empty record");
        let h = ser_header().unwrap();
        assert!(matches!(ser_body(), Some(MessageBody::PDelayReq(_))) && h.sequence_id == pseq && h.source_port_identity == cfg.identity()
            && h.domain_number == st.default_ds.domain_number && h.sdo_id == st.default_ds.sdo_id, "C10: Pdelay_Req header");
        assert!(state_code(&port.port_state) == code);
    } else if code == ST_SLAVE {
        assert!(d.n == 2 && d.send_event == 1 && d.reset_delay == 1, "C12: slave must keep requesting delay (and re-arm the timer)");
        assert!(!d.event_link_local && d.event_len == 44);
        assert!(matches!(ctx, Some(TimestampContext { inner: TimestampContextInner::DelayReq { id } }) if id == dseq));
        assert!(seq_peek(&port.delay_seq_ids) == dseq.wrapping_add(1) && seq_peek(&port.pdelay_seq_ids) == pseq, "C10: Delay_Req sequence ids increase by one");
        match &port.port_state {
            PortState::Slave(ss) => assert!(ss.delay_state == DelayState::Measuring { id: dseq, send_time: None, recv_time: None }, "C09: new request must start from an empty exchange"),
            _ => panic!("state changed"),
        }
        let h = ser_header().unwrap();
        assert!(matches!(ser_body(), Some(MessageBody::DelayReq(_))) && h.sequence_id == dseq && h.source_port_identity == cfg.identity()
            && h.domain_number == st.default_ds.domain_number && h.sdo_id == st.default_ds.sdo_id && Some(h.version) == PtpVersion::new(2, cfg.minor as u8), "C10: Delay_Req header");
    } else {
        assert!(d.none() && ser_count() == 0 && snapshot(&port) == before, "C08: end-to-end Delay_Req emitted by a port that is not slave");
    }
    if d.reset_delay == 1 {
        // cadence: between 0 and 2 x the configured interval (1 s), +1 ns rounding
        assert!(d.dur_delay <= core::time::Duration::from_nanos(2_000_000_001), "C12: delay request timer beyond twice the configured interval");
        let (addr, blen) = ser_buf();
        assert!(ser_count() == 1 && addr == port.packet_buffer.as_ptr() as usize && blen == MAX_DATA_LEN && ser_suffix_len() == 0);
    }
    assert!(port.clock.commands() == 0 && port.filter.count == 0);
    assert!(port.instance_state.is_free());
    kani::cover!(cfg.p2p && code == ST_FAULTY, "faulty P2P port keeps requesting");
    kani::cover!(!cfg.p2p && code == ST_SLAVE, "E2E slave requests");
    kani::cover!(!cfg.p2p && code == ST_MASTER, "E2E master silent");
    core::mem::forget(port);
}

// @harness c12_filter_update_timer
// @props C12:quick C08:thorough C03:thorough C17:thorough
// @tier quick
// @variant lists2
// @timeout 900
// @functions Port::handle_filter_update_timer, PortActionIterator::from_filter
// @bounds one step from an arbitrary port state; recording filter with arbitrary returned mean delay / next update
#[kani::proof]
#[kani::unwind(9)]
fn c12_filter_update_timer() {
    let state = any_state(0);
    let (mut port, _cfg, code) = setup(&state);
    let md0 = port.mean_delay;
    let fc = port.filter.cfg;
    let (d, _) = drain(port.handle_filter_update_timer());
    assert!(port.filter.updates == 1 && port.filter.count == 0);
    assert!(d.sends() == 0 && d.n == d.reset_filter && (d.reset_filter == 1) == fc.ret_update, "C12: filter update timer re-armed exactly when the filter asks for it");
    assert!(port.mean_delay == if fc.ret_delay.is_some() { fc.ret_delay } else { md0 });
    assert!(state_code(&port.port_state) == code && port.instance_state.is_free());
    kani::cover!(fc.ret_update, "re-armed");
    core::mem::forget(port);
}

// @harness c12_announce_duration_real
// @props C12:quick
// @tier quick
// @timeout 600
// @functions PortConfig::announce_duration, Interval::as_core_duration, core::time::Duration::mul_f64, rand::distributions::Open01
// @bounds the real floating-point implementation on concrete inputs: announce interval 2^0 s, receipt timeout in {1, 3, 255}, rng words {0, 0x8000000000000000, 0xffffffffffffffff} (9 evaluations, constant-folded and decided by CBMC)
// @note discharges the contract assumed by the announce_duration stub for these inputs; other inputs rely on monotonicity of the f64 product (stated, not decided)
#[kani::proof]
#[kani::unwind(9)]
fn c12_announce_duration_real() {
    let words = [0u64, 0x8000_0000_0000_0000, u64::MAX];
    let timeouts = [1u8, 3, 255];
    let mut i = 0;
    while i < 3 {
        let mut j = 0;
        while j < 3 {
            let mut c = PortCfg::plain();
            c.receipt_timeout = timeouts[j];
            let cfg = c.config_pub();
            let mut rng = StubRng(words[i]);
            let d = cfg.announce_duration(&mut rng);
            assert!(announce_duration_in_range(&cfg, d), "real announce_duration outside timeout * interval * [1, 2]");
            j += 1;
        }
        i += 1;
    }
    kani::cover!(true, "nine evaluations");
}




