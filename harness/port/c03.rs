//! C03 twins: input classes excluded from the general harnesses, each isolated so that it is decided on
//! its own (and listed in known_findings.json while the defect exists).
use super::common::*;
use super::super::state::{PortState, SyncState};
use super::super::*;
use super::super::actions::TimestampContextInner;
use crate::datastructures::messages::{FollowUpMessage, SyncMessage};
use crate::verif_root::gen::*;

fn slave_port<'a>(state: &'a DepthCell, remote: PortIdentity) -> RPort<'a> {
    mk_running(state, PortCfg::plain(), RecClock::quiet(), RecFilterCfg { ret_delay: None, ret_update: false }, mk_slave_state(remote))
}

// @harness c03_sync_correction_exceeds_receive_time
// @props C03:quick C09:quick
// @tier quick
// @variant lists2
// @timeout 1200
// @mem 8
// @expect known:D5-sync
// @functions Port::handle_sync, Sub<Duration> for Time, Add<Duration> for Time
// @bounds slave port (fresh slots), Sync from the parent with any correctionField and a receive time in [0, 2^47 ns) - the class the general harness c09_sync assumes away
#[kani::proof]
#[kani::unwind(9)]
fn c03_sync_correction_exceeds_receive_time() {
    let state = fresh_state(false, false);
    let remote = any_port_identity();
    let mut port = slave_port(&state, remote);
    let mut h = any_header();
    h.source_port_identity = remote;
    let recv = any_time();
    kani::assume(recv < Time::from_nanos(1 << 47));
    let (_d, _) = drain(port.handle_sync(h, SyncMessage { origin_timestamp: any_wire_timestamp() }, recv));
    kani::cover!(true, "returned normally for some input");
    core::mem::forget(port);
}

// @harness c03_follow_up_negative_correction_exceeds_timestamp
// @props C03:quick C09:quick
// @tier quick
// @variant lists2
// @timeout 1200
// @mem 8
// @expect known:D5-follow-up
// @functions Port::handle_follow_up, Add<Duration> for Time
// @bounds slave port (fresh slots), Follow_Up from the parent with any correctionField and preciseOriginTimestamp seconds < 2^18 - the class the general harness c09_follow_up assumes away
#[kani::proof]
#[kani::unwind(9)]
fn c03_follow_up_negative_correction_exceeds_timestamp() {
    let state = fresh_state(false, false);
    let remote = any_port_identity();
    let mut port = slave_port(&state, remote);
    let mut h = any_header();
    h.source_port_identity = remote;
    let ts = any_wire_timestamp();
    kani::assume(ts.seconds < (1 << 18));
    let (_d, _) = drain(port.handle_follow_up(h, FollowUpMessage { precise_origin_timestamp: ts }));
    kani::cover!(true, "returned normally for some input");
    core::mem::forget(port);
}

// @harness c12_faulty_recovery_requests_receipt_timer
// @props C12:quick C14:quick
// @tier quick
// @variant lists2
// @stubbing yes
// @timeout 1200
// @mem 8
// @expect known:D13
// @functions Port::handle_pdelay_timestamp, Port::extract_measurement, Port::set_forced_port_state
// @bounds faulty P2P port whose peer-delay record lacks only the request's transmit timestamp; the timestamp arrives and completes a single-responder exchange
// @note a port that recovers into LISTENING depends on the announce receipt timer to ever become master on a silent network; the timers of its earlier life are not re-armed while it was faulty
#[kani::proof]
#[kani::unwind(9)]
#[kani::stub(core::mem::swap, super::common::swap_stub)]
fn c12_faulty_recovery_requests_receipt_timer() {
    let state = fresh_state(false, false);
    let mut cfg = PortCfg::plain();
    cfg.p2p = true;
    let mut port = mk_running(&state, cfg, RecClock::quiet(), RecFilterCfg { ret_delay: None, ret_update: false }, PortState::Faulty);
    let id: u16 = kani::any();
    port.peer_delay_state = PeerDelayState::Measuring {
        id,
        responder_identity: Some(any_port_identity()),
        request_send_time: None,
        request_recv_time: Some(any_slot_time()),
        response_send_time: Some(any_slot_time()),
        response_recv_time: Some(any_slot_time()),
    };
    let ctx = TimestampContext { inner: TimestampContextInner::PDelayReq { id } };
    let (d, _) = drain(port.handle_send_timestamp(ctx, any_time()));
    assert!(state_code(&port.port_state) == ST_LISTENING, "C14: recovery");
    assert!(d.reset_receipt == 1, "C12: port recovered into LISTENING without requesting the announce receipt timer");
    kani::cover!(true, "recovered");
    core::mem::forget(port);
}
