//! C09: offset and delay measurements use one matching exchange, exactly.
//! One inductive step of each slave-side handler from an arbitrary slave state.
use super::common::*;
use super::super::state::{DelayState, PortState, SlaveState, SyncState};
use super::super::*;
use super::super::actions::TimestampContextInner;
use crate::datastructures::common::WireTimestamp;
use crate::datastructures::messages::{DelayRespMessage, FollowUpMessage, Header, SyncMessage};
use crate::verif_root::gen::*;

/// bits (2^-32 ns) of a time
fn tb(t: Time) -> i128 {
    t.nanos().to_bits() as i128
}
fn db(d: Duration) -> i128 {
    d.nanos().to_bits()
}
/// a wire timestamp in 2^-32 ns, computed with plain integers
fn wire_bits(w: WireTimestamp) -> i128 {
    ((w.seconds as i128) * 1_000_000_000i128 + w.nanos as i128) << 32
}
/// correction field (2^-16 ns) in 2^-32 ns
fn corr_bits(h: &Header) -> i128 {
    (h.correction_field.0.to_bits() as i128) << 16
}

struct Pre {
    remote: PortIdentity,
    sync: SyncState,
    delay: DelayState,
    last_raw: Option<Duration>,
    mean_delay: Option<Duration>,
    asym: i128,
}

fn setup<'a>(state: &'a DepthCell) -> (RPort<'a>, Pre, PortCfg, RecFilterCfg) {
    let cfg = PortCfg::any();
    let fcfg = any_filter_cfg();
    let remote = any_port_identity();
    let ss = any_slave_state(remote);
    let pre_sync = ss.sync_state;
    let pre_delay = ss.delay_state;
    let pre_last = ss.last_raw_sync_offset;
    let mut port = mk_running(state, cfg, RecClock::quiet(), fcfg, PortState::Slave(ss));
    havoc_small(&mut port);
    port.peer_delay_state = any_peer_delay_state();
    let pre = Pre { remote, sync: pre_sync, delay: pre_delay, last_raw: pre_last, mean_delay: port.mean_delay, asym: db(cfg.asymmetry) };
    (port, pre, cfg, fcfg)
}

fn slave_of<'p>(port: &'p RPort<'_>) -> &'p SlaveState {
    match &port.port_state {
        PortState::Slave(s) => s,
        _ => panic!("port left the slave state"),
    }
}

fn check_common_post(port: &RPort<'_>, pre: &Pre, fcfg: &RecFilterCfg, measured: bool, d: &Drained) {
    let ss = slave_of(port);
    assert!(ss.remote_master == pre.remote, "C09: selected parent changed");
    assert!(!slave_slots_complete(ss) && !peer_slot_complete(&port.peer_delay_state), "Inv: a complete exchange was left unconsumed");
    assert!(d.sends() == 0 && !d.overflow, "C09: slave-side receive handlers send nothing");
    if measured {
        assert!(port.filter.count == 1, "exactly one measurement handed to the filter");
        let want_md = if fcfg.ret_delay.is_some() { fcfg.ret_delay } else { pre.mean_delay };
        assert!(port.mean_delay == want_md);
        assert!((d.reset_filter == 1) == fcfg.ret_update && d.n == d.reset_filter);
    } else {
        assert!(port.filter.count == 0, "C09: measurement produced without a complete matching exchange");
        assert!(port.mean_delay == pre.mean_delay);
        assert!(d.none());
    }
    assert!(port.clock.commands() == 0);
    assert!(port.instance_state.is_free());
}

// @harness c09_sync
// @props C09:quick C07:thorough C03:thorough C17:thorough
// @tier quick
// @variant lists2
// @timeout 1200
// @mem 8
// @functions Port::handle_sync, Port::handle_time_measurement, Port::extract_measurement, Time - Duration, Time - Time, Duration - Duration, From<WireTimestamp> for Time, From<TimeInterval> for Duration
// @bounds one step from an arbitrary Slave state: stored sync/delay slots arbitrary (any id, any stored times < 2^79 ns with 2^-32 ns fraction, Inv: no slot complete), arbitrary last raw sync offset / mean delay (96-bit), arbitrary peer-delay record; header fully symbolic (sequence id, correction i64, source identity, all flags incl. twoStep), origin timestamp seconds < 2^48 and any u32 nanoseconds, asymmetry any I48F16, E2E or P2P
// @assume receive time in [2^47 ns, 2^63 ns) (so that recv - correction cannot underflow; the underflow corner is C03's known-finding twin)
// @assume foreign-master list capacities scaled 8 -> 2 in the scratch copy (list is empty and untouched by this handler)
#[kani::proof]
#[kani::unwind(9)]
fn c09_sync() {
    let state = any_state(0);
    let (mut port, pre, _cfg, fcfg) = setup(&state);
    let h = any_header();
    let msg = SyncMessage { origin_timestamp: any_wire_timestamp() };
    let recv = any_time();
    kani::assume(tb(recv) >= (1i128 << (47 + 32)));
    let before = snapshot(&port);
    let (d, _) = drain(port.handle_sync(h, msg, recv));
    let corrected = tb(recv) - corr_bits(&h);
    let from_parent = h.source_port_identity == pre.remote;
    let same_id = matches!(pre.sync, SyncState::Measuring { id, .. } if id == h.sequence_id);
    // the exchange this call may complete: (send, recv) in 2^-32 ns, both halves carrying h.sequence_id
    let complete: Option<(i128, i128)> = if !from_parent {
        None
    } else if !h.two_step_flag {
        if same_id { None } else { Some((wire_bits(msg.origin_timestamp), corrected)) }
    } else {
        match pre.sync {
            SyncState::Measuring { id, send_time: Some(s), recv_time: None } if id == h.sequence_id => Some((tb(s), corrected)),
            _ => None,
        }
    };
    check_common_post(&port, &pre, &fcfg, complete.is_some(), &d);
    let post = slave_of(&port);
    if !from_parent {
        assert!(snapshot(&port) == before, "C07/C09: Sync from a non-parent changed state");
    }
    assert!(post.delay_state == pre.delay, "C09: sync handling touched the delay exchange");
    match complete {
        Some((send, rcv)) => {
            let m = port.filter.last.unwrap();
            let raw = rcv - send - pre.asym;
            assert!(m.raw_sync_offset.map(db) == Some(raw), "C09: raw sync offset != t2 - corr - t1 - asymmetry on the matching exchange");
            assert!(tb(m.event_time) == rcv, "event time is the corrected receive time");
            assert!(m.offset.map(db) == pre.mean_delay.map(|md| raw - db(md)), "offset != raw - meanDelay");
            assert!(m.delay.is_none() && m.peer_delay.is_none() && m.raw_delay_offset.is_none());
            assert!(post.sync_state == SyncState::Empty, "completed exchange must be consumed");
            assert!(post.last_raw_sync_offset.map(db) == Some(raw));
        }
        None => {
            assert!(post.last_raw_sync_offset == pre.last_raw);
            if from_parent {
                let dup = match pre.sync {
                    SyncState::Measuring { id, recv_time: Some(_), .. } if id == h.sequence_id => true,
                    SyncState::Measuring { id, .. } if id == h.sequence_id && !h.two_step_flag => true,
                    _ => false,
                };
                if dup {
                    assert!(post.sync_state == pre.sync, "duplicate Sync must be ignored");
                } else {
                    // first half of a two-step exchange is stored under its own sequence id
                    match post.sync_state {
                        SyncState::Measuring { id, recv_time: Some(r), send_time } => {
                            assert!(id == h.sequence_id && tb(r) == corrected);
                            assert!(send_time.is_none(), "a stored send time of another exchange must not survive");
                        }
                        _ => panic!("two-step Sync was not stored"),
                    }
                }
            }
        }
    }
    kani::cover!(complete.is_some() && !h.two_step_flag, "one-step measurement");
    kani::cover!(complete.is_some() && h.two_step_flag, "two-step measurement completed by Sync");
    kani::cover!(from_parent && complete.is_none() && same_id, "duplicate ignored");
    kani::cover!(!from_parent, "foreign Sync");
    core::mem::forget(port);
}

// @harness c09_follow_up
// @props C09:quick C07:thorough C03:thorough C17:thorough
// @tier quick
// @variant lists2
// @timeout 1200
// @mem 8
// @functions Port::handle_follow_up, Port::handle_time_measurement, Port::extract_measurement, Time + Duration
// @bounds as c09_sync; Follow_Up header and precise origin timestamp fully symbolic
// @assume precise origin timestamp seconds >= 2^18 (so that t1 + negative correction cannot underflow; the corner is C03's known-finding twin)
#[kani::proof]
#[kani::unwind(9)]
fn c09_follow_up() {
    let state = any_state(0);
    let (mut port, pre, _cfg, fcfg) = setup(&state);
    let h = any_header();
    let msg = FollowUpMessage { precise_origin_timestamp: any_wire_timestamp() };
    kani::assume(msg.precise_origin_timestamp.seconds >= (1 << 18));
    let before = snapshot(&port);
    let (d, _) = drain(port.handle_follow_up(h, msg));
    let send = wire_bits(msg.precise_origin_timestamp) + corr_bits(&h);
    let from_parent = h.source_port_identity == pre.remote;
    let complete: Option<(i128, i128)> = if !from_parent {
        None
    } else {
        match pre.sync {
            SyncState::Measuring { id, send_time: None, recv_time: Some(r) } if id == h.sequence_id => Some((send, tb(r))),
            _ => None,
        }
    };
    check_common_post(&port, &pre, &fcfg, complete.is_some(), &d);
    let post = slave_of(&port);
    if !from_parent {
        assert!(snapshot(&port) == before, "C07/C09: Follow_Up from a non-parent changed state");
    }
    assert!(post.delay_state == pre.delay);
    match complete {
        Some((snd, rcv)) => {
            let m = port.filter.last.unwrap();
            let raw = rcv - snd - pre.asym;
            assert!(m.raw_sync_offset.map(db) == Some(raw), "C09: raw sync offset != t2 - (t1 + corr) - asymmetry on the matching exchange");
            assert!(tb(m.event_time) == rcv);
            assert!(m.offset.map(db) == pre.mean_delay.map(|md| raw - db(md)));
            assert!(m.delay.is_none() && m.peer_delay.is_none() && m.raw_delay_offset.is_none());
            assert!(post.sync_state == SyncState::Empty);
            assert!(post.last_raw_sync_offset.map(db) == Some(raw));
        }
        None => {
            assert!(post.last_raw_sync_offset == pre.last_raw);
            if from_parent {
                let dup = matches!(pre.sync, SyncState::Measuring { id, send_time: Some(_), .. } if id == h.sequence_id);
                if dup {
                    assert!(post.sync_state == pre.sync, "duplicate Follow_Up must be ignored");
                } else {
                    match post.sync_state {
                        SyncState::Measuring { id, send_time: Some(s), recv_time } => {
                            assert!(id == h.sequence_id && tb(s) == send);
                            assert!(recv_time.is_none(), "a stored receive time of another exchange must not survive");
                        }
                        _ => panic!("Follow_Up was not stored"),
                    }
                }
            }
        }
    }
    kani::cover!(complete.is_some(), "measurement completed by Follow_Up");
    kani::cover!(from_parent && complete.is_none(), "Follow_Up before Sync stored / duplicate");
    kani::cover!(!from_parent, "foreign Follow_Up");
    core::mem::forget(port);
}

// @harness c09_delay_timestamp
// @props C09:quick C03:quick C17:quick
// @tier quick
// @variant lists2
// @timeout 1200
// @mem 8
// @functions Port::handle_send_timestamp, Port::handle_delay_timestamp, Port::extract_measurement, Duration / 2
// @bounds as c09_sync; transmit timestamp any Time in [0, 2^63 ns) with 2^-32 ns fraction, context id any u16
#[kani::proof]
#[kani::unwind(9)]
fn c09_delay_timestamp() {
    let state = any_state(0);
    let (mut port, pre, _cfg, fcfg) = setup(&state);
    let tid: u16 = kani::any();
    let ts = any_time();
    let ctx = TimestampContext { inner: TimestampContextInner::DelayReq { id: tid } };
    let (d, _) = drain(port.handle_send_timestamp(ctx, ts));
    let complete: Option<(i128, i128)> = match pre.delay {
        DelayState::Measuring { id, send_time: None, recv_time: Some(r) } if id == tid => Some((tb(ts), tb(r))),
        _ => None,
    };
    check_common_post(&port, &pre, &fcfg, complete.is_some(), &d);
    let post = slave_of(&port);
    assert!(post.sync_state == pre.sync, "C09: delay handling touched the sync exchange");
    assert!(post.last_raw_sync_offset == pre.last_raw);
    match complete {
        Some((snd, rcv)) => {
            let m = port.filter.last.unwrap();
            let raw = snd - rcv - pre.asym;
            assert!(m.raw_delay_offset.map(db) == Some(raw), "C09: raw delay offset != t3 - (t4 - corr) - asymmetry");
            assert!(tb(m.event_time) == snd);
            assert!(m.delay.map(db) == pre.last_raw.map(|s| (db(s) - raw) / 2), "C09: delay != (rawSync - rawDelay) / 2");
            assert!(m.offset.is_none() && m.peer_delay.is_none() && m.raw_sync_offset.is_none());
            assert!(post.delay_state == DelayState::Empty);
        }
        None => match pre.delay {
            DelayState::Measuring { id, send_time: None, recv_time: None } if id == tid => {
                assert!(post.delay_state == DelayState::Measuring { id: tid, send_time: Some(ts), recv_time: None });
            }
            _ => assert!(post.delay_state == pre.delay, "late or double transmit timestamp must be ignored"),
        },
    }
    kani::cover!(complete.is_some() && pre.last_raw.is_some(), "delay measurement completed by transmit timestamp");
    kani::cover!(complete.is_none() && matches!(pre.delay, DelayState::Measuring { id, send_time: Some(_), .. } if id == tid), "double timestamp");
    kani::cover!(matches!(pre.delay, DelayState::Measuring { id, .. } if id != tid), "late timestamp");
    core::mem::forget(port);
}

// @harness c09_delay_resp
// @props C09:quick C07:quick C03:thorough C17:thorough
// @tier quick
// @variant lists2
// @timeout 1200
// @mem 8
// @functions Port::handle_delay_resp, Port::handle_time_measurement, Port::extract_measurement
// @bounds as c09_sync; Delay_Resp header, receive timestamp and requesting port identity fully symbolic
// @assume receive timestamp seconds >= 2^18 (so that t4 - positive correction cannot underflow; the corner is C03's known-finding twin)
#[kani::proof]
#[kani::unwind(9)]
fn c09_delay_resp() {
    let state = any_state(0);
    let (mut port, pre, cfg, fcfg) = setup(&state);
    let h = any_header();
    let msg = DelayRespMessage { receive_timestamp: any_wire_timestamp(), requesting_port_identity: any_port_identity() };
    kani::assume(msg.receive_timestamp.seconds >= (1 << 18));
    let before = snapshot(&port);
    let (d, _) = drain(port.handle_delay_resp(h, msg));
    let rcv = wire_bits(msg.receive_timestamp) - corr_bits(&h);
    let ours = h.source_port_identity == pre.remote && msg.requesting_port_identity == cfg.identity();
    let complete: Option<(i128, i128)> = if !ours {
        None
    } else {
        match pre.delay {
            DelayState::Measuring { id, send_time: Some(s), recv_time: None } if id == h.sequence_id => Some((tb(s), rcv)),
            _ => None,
        }
    };
    check_common_post(&port, &pre, &fcfg, complete.is_some(), &d);
    let post = slave_of(&port);
    if !ours {
        assert!(snapshot(&port) == before, "C07/C09: Delay_Resp of another parent / for another requester changed state");
    }
    assert!(post.sync_state == pre.sync);
    assert!(post.last_raw_sync_offset == pre.last_raw);
    match complete {
        Some((snd, r)) => {
            let m = port.filter.last.unwrap();
            let raw = snd - r - pre.asym;
            assert!(m.raw_delay_offset.map(db) == Some(raw), "C09: raw delay offset != t3 - (t4 - corr) - asymmetry");
            assert!(tb(m.event_time) == snd);
            assert!(m.delay.map(db) == pre.last_raw.map(|s| (db(s) - raw) / 2), "C09: delay != (rawSync - rawDelay) / 2");
            assert!(m.offset.is_none() && m.peer_delay.is_none() && m.raw_sync_offset.is_none());
            assert!(post.delay_state == DelayState::Empty);
        }
        None => match pre.delay {
            DelayState::Measuring { id, send_time: None, recv_time: None } if ours && id == h.sequence_id => match post.delay_state {
                DelayState::Measuring { id, send_time: None, recv_time: Some(r) } => assert!(id == h.sequence_id && tb(r) == rcv),
                _ => panic!("Delay_Resp before transmit timestamp was not stored"),
            },
            _ => assert!(post.delay_state == pre.delay, "unexpected / duplicate Delay_Resp must be ignored"),
        },
    }
    kani::cover!(complete.is_some() && pre.last_raw.is_some(), "delay measurement completed by Delay_Resp");
    kani::cover!(ours && complete.is_none(), "unexpected or early Delay_Resp");
    kani::cover!(!ours, "foreign Delay_Resp");
    core::mem::forget(port);
}
