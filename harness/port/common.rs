//! Environment stubs and state constructors shared by the port harnesses.
use super::super::*;
use super::super::state::{DelayState, PortState, SlaveState, SyncState};

/// A `PortState::Slave` with empty exchange slots (what BMCA creates).
pub(crate) fn mk_slave_state(remote: PortIdentity) -> PortState {
    PortState::Slave(SlaveState::new(remote))
}
