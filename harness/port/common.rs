//! Environment stubs and state constructors shared by the port harnesses.
//!
//! Generic instantiation verified by every port harness:
//! `Port<'_, Running | InBmca, AcceptTwo, StubRng, RecClock, RecFilter, DepthCell>`.
use core::cell::{Cell, UnsafeCell};

use super::super::state::{DelayState, PortState, SlaveState, SyncState};
use super::super::*;
use crate::{
    bmc::acceptable_master::AcceptableMasterList,
    config::{ClockIdentity, DelayMechanism, InstanceConfig, PtpMinorVersion, TimePropertiesDS},
    datastructures::{
        common::TimeInterval,
        datasets::{InternalCurrentDS, InternalDefaultDS, InternalParentDS, PathTraceDS},
    },
    filters::FilterUpdate,
    time::Interval,
    verif_root::gen::*,
};

// ------------------------------------------------------------------------------------------
// lock that detects nested acquisition (C17) and counts sections
// ------------------------------------------------------------------------------------------

pub(crate) struct DepthCell {
    state: UnsafeCell<PtpInstanceState>,
    depth: Cell<u32>,
    pub(crate) ref_sections: Cell<u32>,
    pub(crate) mut_sections: Cell<u32>,
}

impl DepthCell {
    /// direct access for the harness itself (not counted)
    pub(crate) fn peek(&self) -> &PtpInstanceState {
        unsafe { &*self.state.get() }
    }
    pub(crate) fn poke(&self) -> &mut PtpInstanceState {
        unsafe { &mut *self.state.get() }
    }
    pub(crate) fn is_free(&self) -> bool {
        self.depth.get() == 0
    }
    pub(crate) fn reset_counts(&self) {
        self.ref_sections.set(0);
        self.mut_sections.set(0);
    }
}

impl PtpInstanceStateMutex for DepthCell {
    fn new(state: PtpInstanceState) -> Self {
        DepthCell { state: UnsafeCell::new(state), depth: Cell::new(0), ref_sections: Cell::new(0), mut_sections: Cell::new(0) }
    }

    fn with_ref<R, F: FnOnce(&PtpInstanceState) -> R>(&self, f: F) -> R {
        assert!(self.depth.get() == 0, "C17: instance state lock requested while already held (shared)");
        self.depth.set(1);
        let r = f(unsafe { &*self.state.get() });
        self.depth.set(0);
        self.ref_sections.set(self.ref_sections.get() + 1);
        r
    }

    fn with_mut<R, F: FnOnce(&mut PtpInstanceState) -> R>(&self, f: F) -> R {
        assert!(self.depth.get() == 0, "C17: instance state lock requested while already held (exclusive)");
        self.depth.set(1);
        let r = f(unsafe { &mut *self.state.get() });
        self.depth.set(0);
        self.mut_sections.set(self.mut_sections.get() + 1);
        r
    }
}

// ------------------------------------------------------------------------------------------
// recording clock
// ------------------------------------------------------------------------------------------

pub(crate) struct RecClock {
    pub now: Time,
    pub ret: Time,
    pub fail_freq: bool,
    pub fail_step: bool,
    pub n_now: Cell<u32>,
    pub n_freq: u32,
    pub last_freq: f64,
    pub n_step: u32,
    pub last_step: Duration,
    pub n_props: u32,
}

impl RecClock {
    /// times fixed, nothing fails
    pub(crate) fn quiet() -> Self {
        RecClock { now: Time::default(), ret: Time::default(), fail_freq: false, fail_step: false, n_now: Cell::new(0),
                   n_freq: 0, last_freq: 0.0, n_step: 0, last_step: Duration::ZERO, n_props: 0 }
    }
    /// arbitrary returned times, arbitrary failures
    pub(crate) fn any() -> Self {
        RecClock { now: any_time(), ret: any_time(), fail_freq: kani::any(), fail_step: kani::any(), ..Self::quiet() }
    }
    pub(crate) fn commands(&self) -> u32 {
        self.n_freq + self.n_step
    }
}

impl Clock for RecClock {
    type Error = ();
    fn now(&self) -> Time {
        self.n_now.set(self.n_now.get() + 1);
        self.now
    }
    fn step_clock(&mut self, offset: Duration) -> Result<Time, ()> {
        self.n_step += 1;
        self.last_step = offset;
        if self.fail_step { Err(()) } else { Ok(self.ret) }
    }
    fn set_frequency(&mut self, ppm: f64) -> Result<Time, ()> {
        self.n_freq += 1;
        self.last_freq = ppm;
        if self.fail_freq { Err(()) } else { Ok(self.ret) }
    }
    fn set_properties(&mut self, _t: &TimePropertiesDS) -> Result<(), ()> {
        self.n_props += 1;
        Ok(())
    }
}

// ------------------------------------------------------------------------------------------
// recording filter
// ------------------------------------------------------------------------------------------

pub(crate) static mut DEMOBILIZED: u32 = 0;
pub(crate) static mut FILTERS_CREATED: u32 = 0;

pub(crate) fn demobilized() -> u32 {
    unsafe { DEMOBILIZED }
}

#[derive(Clone, Copy)]
pub(crate) struct RecFilterCfg {
    pub ret_delay: Option<Duration>,
    pub ret_update: bool,
}

pub(crate) struct RecFilter {
    pub cfg: RecFilterCfg,
    pub last: Option<Measurement>,
    pub count: u32,
    pub updates: u32,
}

impl Filter for RecFilter {
    type Config = RecFilterCfg;
    fn new(cfg: RecFilterCfg) -> Self {
        unsafe { FILTERS_CREATED += 1 };
        RecFilter { cfg, last: None, count: 0, updates: 0 }
    }
    fn measurement<C: Clock>(&mut self, m: Measurement, _c: &mut C) -> FilterUpdate {
        self.last = Some(m);
        self.count += 1;
        FilterUpdate {
            next_update: if self.cfg.ret_update { Some(core::time::Duration::new(1, 0)) } else { None },
            mean_delay: self.cfg.ret_delay,
        }
    }
    fn demobilize<C: Clock>(self, _c: &mut C) {
        unsafe { DEMOBILIZED += 1 };
    }
    fn update<C: Clock>(&mut self, _c: &mut C) -> FilterUpdate {
        self.updates += 1;
        FilterUpdate {
            next_update: if self.cfg.ret_update { Some(core::time::Duration::new(1, 0)) } else { None },
            mean_delay: self.cfg.ret_delay,
        }
    }
    fn current_estimates(&self) -> FilterEstimate {
        FilterEstimate { offset_from_master: Duration::ZERO, mean_delay: Duration::ZERO }
    }
}

// ------------------------------------------------------------------------------------------
// rng, acceptable master list
// ------------------------------------------------------------------------------------------

pub(crate) struct StubRng(pub u64);

impl rand::RngCore for StubRng {
    fn next_u32(&mut self) -> u32 {
        (self.0 >> 32) as u32
    }
    fn next_u64(&mut self) -> u64 {
        self.0
    }
    fn fill_bytes(&mut self, dest: &mut [u8]) {
        for b in dest.iter_mut() {
            *b = self.0 as u8;
        }
    }
    fn try_fill_bytes(&mut self, dest: &mut [u8]) -> Result<(), rand::Error> {
        self.fill_bytes(dest);
        Ok(())
    }
}

/// Acceptable master list with (up to) two symbolic entries, or "accept all".
#[derive(Clone, Copy)]
pub(crate) struct AcceptTwo {
    pub all: bool,
    pub a: ClockIdentity,
    pub b: ClockIdentity,
}

impl AcceptTwo {
    pub(crate) fn everyone() -> Self {
        AcceptTwo { all: true, a: ClockIdentity([0; 8]), b: ClockIdentity([0; 8]) }
    }
    pub(crate) fn any() -> Self {
        AcceptTwo { all: kani::any(), a: any_clock_identity(), b: any_clock_identity() }
    }
}

impl AcceptableMasterList for AcceptTwo {
    fn is_acceptable(&self, identity: ClockIdentity) -> bool {
        self.all || identity == self.a || identity == self.b
    }
}

// ------------------------------------------------------------------------------------------
// instance state
// ------------------------------------------------------------------------------------------

pub(crate) const OWN_CLOCK: ClockIdentity = ClockIdentity([0x10, 0x20, 0x30, 0x40, 0x50, 0x60, 0x70, 0x80]);

/// The state `PtpInstance::new` builds for the given config (base case).
pub(crate) fn fresh_state(slave_only: bool, path_trace: bool) -> DepthCell {
    let default_ds = InternalDefaultDS::new(InstanceConfig {
        clock_identity: OWN_CLOCK,
        priority_1: 128,
        priority_2: 128,
        domain_number: 0,
        slave_only,
        sdo_id: Default::default(),
        path_trace,
        clock_quality: Default::default(),
    });
    DepthCell::new(PtpInstanceState {
        default_ds,
        current_ds: Default::default(),
        parent_ds: InternalParentDS::new(default_ds),
        path_trace_ds: PathTraceDS::new(path_trace),
        time_properties_ds: Default::default(),
    })
}

/// Arbitrary instance state: symbolic own attributes, domain, sdoId, slave-only flag, parent and
/// time-properties data sets, stepsRemoved (Inv: <= 255); path trace list of `path_len` symbolic
/// entries (concrete length, so array accesses stay concrete).
pub(crate) fn any_state(path_len: usize) -> DepthCell {
    let mut default_ds = InternalDefaultDS::new(InstanceConfig {
        clock_identity: OWN_CLOCK,
        priority_1: kani::any(),
        priority_2: kani::any(),
        domain_number: kani::any(),
        slave_only: kani::any(),
        sdo_id: crate::config::SdoId::try_from(kani::any::<u16>() & 0xfff).unwrap(),
        path_trace: false,
        clock_quality: any_quality(),
    });
    default_ds.number_ports = kani::any();
    let steps: u16 = kani::any();
    kani::assume(steps <= 255);
    let mut path = PathTraceDS::new(kani::any());
    let mut i = 0;
    while i < path_len {
        path.list.push(any_clock_identity());
        i += 1;
    }
    DepthCell::new(PtpInstanceState {
        default_ds,
        current_ds: InternalCurrentDS { steps_removed: steps },
        parent_ds: InternalParentDS {
            parent_port_identity: any_port_identity(),
            grandmaster_identity: any_clock_identity(),
            grandmaster_clock_quality: any_quality(),
            grandmaster_priority_1: kani::any(),
            grandmaster_priority_2: kani::any(),
        },
        path_trace_ds: path,
        time_properties_ds: any_time_properties(),
    })
}

// ------------------------------------------------------------------------------------------
// port construction (in place; no `Port::new` / `end_bmca` moves of the large struct)
// ------------------------------------------------------------------------------------------

pub(crate) type RPort<'a> = Port<'a, Running, AcceptTwo, StubRng, RecClock, RecFilter, DepthCell>;
pub(crate) type BPort<'a> = Port<'a, InBmca, AcceptTwo, StubRng, RecClock, RecFilter, DepthCell>;

#[derive(Clone, Copy)]
pub(crate) struct PortCfg {
    pub p2p: bool,
    pub master_only: bool,
    pub asymmetry: Duration,
    pub receipt_timeout: u8,
    pub minor: PtpMinorVersion,
    pub port_number: u16,
    pub accept: AcceptTwo,
    pub rng: u64,
    pub log_interval: i8,
}

impl PortCfg {
    pub(crate) fn plain() -> Self {
        PortCfg { p2p: false, master_only: false, asymmetry: Duration::ZERO, receipt_timeout: 3, minor: PtpMinorVersion::One,
                  port_number: 1, accept: AcceptTwo::everyone(), rng: 0x8000_0000_0000_0000, log_interval: 0 }
    }
    /// symbolic delay mechanism, master-only flag, asymmetry (|a| < 2^63 * 2^-16 ns), receipt timeout, minor version,
    /// port number >= 1, acceptable-master list; log interval and rng word concrete (float code paths)
    pub(crate) fn any() -> Self {
        let port_number: u16 = kani::any();
        kani::assume(port_number >= 1);
        PortCfg {
            p2p: kani::any(),
            master_only: kani::any(),
            asymmetry: Duration::from(TimeInterval(fixed::types::I48F16::from_bits(kani::any()))),
            receipt_timeout: kani::any(),
            minor: if kani::any() { PtpMinorVersion::One } else { PtpMinorVersion::Zero },
            port_number,
            accept: AcceptTwo::any(),
            ..Self::plain()
        }
    }
    pub(crate) fn identity(&self) -> PortIdentity {
        PortIdentity { clock_identity: OWN_CLOCK, port_number: self.port_number }
    }
    pub(crate) fn config_pub(&self) -> PortConfig<()> { self.config() }
    fn config(&self) -> PortConfig<()> {
        let interval = Interval::from_log_2(self.log_interval);
        PortConfig {
            acceptable_master_list: (),
            delay_mechanism: if self.p2p { DelayMechanism::P2P { interval } } else { DelayMechanism::E2E { interval } },
            announce_interval: interval,
            announce_receipt_timeout: self.receipt_timeout,
            sync_interval: interval,
            master_only: self.master_only,
            delay_asymmetry: self.asymmetry,
            minor_ptp_version: self.minor,
        }
    }
}

pub(crate) fn any_filter_cfg() -> RecFilterCfg {
    RecFilterCfg { ret_delay: if kani::any() { Some(any_duration_bits(96)) } else { None }, ret_update: kani::any() }
}

fn announce_interval_ti(log: i8) -> TimeInterval {
    // 2^log seconds as a TimeInterval, computed without floating point (log in -16..=16)
    let ns: i64 = if log >= 0 { 1_000_000_000i64 << log } else { 1_000_000_000i64 >> (-log) };
    TimeInterval(fixed::types::I48F16::from_num(ns))
}

/// A running port with empty foreign-master list and the given protocol state.
pub(crate) fn mk_running<'a>(state: &'a DepthCell, cfg: PortCfg, clock: RecClock, fcfg: RecFilterCfg, port_state: PortState) -> RPort<'a> {
    let pid = cfg.identity();
    Port {
        config: cfg.config(),
        filter_config: fcfg,
        clock,
        port_identity: pid,
        port_state,
        instance_state: state,
        bmca: Bmca::new(cfg.accept, announce_interval_ti(cfg.log_interval), pid),
        packet_buffer: [0; MAX_DATA_LEN],
        lifecycle: Running,
        rng: StubRng(cfg.rng),
        multiport_disable: None,
        announce_seq_ids: SequenceIdGenerator::new(),
        sync_seq_ids: SequenceIdGenerator::new(),
        delay_seq_ids: SequenceIdGenerator::new(),
        pdelay_seq_ids: SequenceIdGenerator::new(),
        filter: RecFilter { cfg: fcfg, last: None, count: 0, updates: 0 },
        mean_delay: None,
        peer_delay_state: PeerDelayState::Empty,
    }
}

/// Make the small dynamic fields of a port arbitrary (sequence generators, mean delay, multiport age).
pub(crate) fn havoc_small<L>(p: &mut Port<'_, L, AcceptTwo, StubRng, RecClock, RecFilter, DepthCell>) {
    p.announce_seq_ids = seq_gen(kani::any());
    p.sync_seq_ids = seq_gen(kani::any());
    p.delay_seq_ids = seq_gen(kani::any());
    p.pdelay_seq_ids = seq_gen(kani::any());
    p.mean_delay = if kani::any() { Some(any_duration_bits(96)) } else { None };
    p.multiport_disable = if kani::any() { Some(any_duration_bits(64)) } else { None };
}

pub(crate) fn seq_gen(start: u16) -> SequenceIdGenerator {
    let mut g = SequenceIdGenerator::new();
    // `current` is private to port::sequence_id; advance by wrapping generation is not an option for a
    // symbolic start, so rebuild through transmute-free means: the struct is a single u16.
    unsafe { *(&mut g as *mut SequenceIdGenerator as *mut u16) = start };
    g
}

pub(crate) fn seq_peek(g: &SequenceIdGenerator) -> u16 {
    g.clone().generate()
}

/// A time as stored in an exchange slot: anything a wire timestamp plus/minus a correction can give
/// (< 2^79 ns), with 32 fractional bits.
pub(crate) fn any_slot_time() -> Time {
    let bits: u128 = kani::any();
    kani::assume(bits < (1u128 << (79 + 32)));
    Time::from_fixed_nanos(fixed::types::U96F32::from_bits(bits))
}

pub(crate) fn any_opt_slot_time() -> Option<Time> {
    if kani::any() { Some(any_slot_time()) } else { None }
}

/// Arbitrary slave state. Inv: no exchange slot is complete (a completed slot is consumed by the
/// call that completes it).
pub(crate) fn any_slave_state(remote: PortIdentity) -> SlaveState {
    let sync_state = if kani::any() {
        let s = any_opt_slot_time();
        let r = any_opt_slot_time();
        kani::assume(!(s.is_some() && r.is_some()));
        SyncState::Measuring { id: kani::any(), send_time: s, recv_time: r }
    } else {
        SyncState::Empty
    };
    let delay_state = if kani::any() {
        let s = any_opt_slot_time();
        let r = any_opt_slot_time();
        kani::assume(!(s.is_some() && r.is_some()));
        DelayState::Measuring { id: kani::any(), send_time: s, recv_time: r }
    } else {
        DelayState::Empty
    };
    SlaveState {
        remote_master: remote,
        sync_state,
        delay_state,
        last_raw_sync_offset: if kani::any() { Some(any_duration_bits(96)) } else { None },
    }
}

/// Arbitrary peer delay state. Inv: a `Measuring` record is not complete.
pub(crate) fn any_peer_delay_state() -> PeerDelayState {
    let k: u8 = kani::any();
    if k == 0 {
        PeerDelayState::Empty
    } else if k == 1 {
        PeerDelayState::PostMeasurement { id: kani::any(), responder_identity: any_port_identity() }
    } else {
        let responder_identity = if kani::any() { Some(any_port_identity()) } else { None };
        let request_send_time = any_opt_slot_time();
        let request_recv_time = any_opt_slot_time();
        let response_send_time = any_opt_slot_time();
        let response_recv_time = any_opt_slot_time();
        kani::assume(!(responder_identity.is_some() && request_send_time.is_some() && request_recv_time.is_some()
            && response_send_time.is_some() && response_recv_time.is_some()));
        PeerDelayState::Measuring { id: kani::any(), responder_identity, request_send_time, request_recv_time,
                                    response_send_time, response_recv_time }
    }
}

pub(crate) fn peer_slot_complete(s: &PeerDelayState) -> bool {
    matches!(s, PeerDelayState::Measuring { responder_identity: Some(_), request_send_time: Some(_), request_recv_time: Some(_),
        response_send_time: Some(_), response_recv_time: Some(_), .. })
}

pub(crate) fn slave_slots_complete(s: &SlaveState) -> bool {
    matches!(s.sync_state, SyncState::Measuring { send_time: Some(_), recv_time: Some(_), .. })
        || matches!(s.delay_state, DelayState::Measuring { send_time: Some(_), recv_time: Some(_), .. })
}

/// Arbitrary protocol state of a port; `remote` is used when it is `Slave`.
pub(crate) fn any_port_state(remote: PortIdentity) -> PortState {
    let k: u8 = kani::any();
    match k {
        0 => PortState::Faulty,
        1 => PortState::Listening,
        2 => PortState::Master,
        3 => PortState::Passive,
        _ => PortState::Slave(any_slave_state(remote)),
    }
}

pub(crate) fn state_code(s: &PortState) -> u8 {
    match s {
        PortState::Faulty => 0,
        PortState::Listening => 1,
        PortState::Master => 2,
        PortState::Passive => 3,
        PortState::Slave(_) => 4,
    }
}

pub(crate) const ST_FAULTY: u8 = 0;
pub(crate) const ST_LISTENING: u8 = 1;
pub(crate) const ST_MASTER: u8 = 2;
pub(crate) const ST_PASSIVE: u8 = 3;
pub(crate) const ST_SLAVE: u8 = 4;

pub(crate) fn mk_slave_state(remote: PortIdentity) -> PortState {
    PortState::Slave(SlaveState::new(remote))
}

// ------------------------------------------------------------------------------------------
// action draining (never `for` over a PortActionIterator: three explicit next() calls)
// ------------------------------------------------------------------------------------------

#[derive(Clone, Copy, Default)]
pub(crate) struct Drained {
    pub n: u8,
    pub send_event: u8,
    pub send_general: u8,
    pub reset_announce: u8,
    pub reset_sync: u8,
    pub reset_delay: u8,
    pub reset_receipt: u8,
    pub reset_filter: u8,
    pub forward: u8,
    pub overflow: bool,
    /// first byte (low nibble = message type) and length of the (last) sent frame
    pub event_type: u8,
    pub event_len: usize,
    pub event_link_local: bool,
    pub general_type: u8,
    pub general_len: usize,
    pub general_link_local: bool,
    pub dur_announce: core::time::Duration,
    pub dur_sync: core::time::Duration,
    pub dur_delay: core::time::Duration,
    pub dur_receipt: core::time::Duration,
    /// the (last) sent frame decodes under the library's own parser (set by drain_copy only)
    pub decodes: bool,
}

impl Drained {
    pub(crate) fn none(&self) -> bool {
        self.n == 0
    }
    pub(crate) fn sends(&self) -> u8 {
        self.send_event + self.send_general
    }
}

fn account(d: &mut Drained, a: PortAction<'_>) -> Option<TimestampContext> {
    d.n += 1;
    match a {
        PortAction::SendEvent { context, data, link_local } => {
            d.send_event += 1;
            d.event_type = data[0] & 0x0f;
            d.event_len = data.len();
            d.event_link_local = link_local;
            return Some(context);
        }
        PortAction::SendGeneral { data, link_local } => {
            d.send_general += 1;
            d.general_type = data[0] & 0x0f;
            d.general_len = data.len();
            d.general_link_local = link_local;
        }
        PortAction::ResetAnnounceTimer { duration } => { d.reset_announce += 1; d.dur_announce = duration; }
        PortAction::ResetSyncTimer { duration } => { d.reset_sync += 1; d.dur_sync = duration; }
        PortAction::ResetDelayRequestTimer { duration } => { d.reset_delay += 1; d.dur_delay = duration; }
        PortAction::ResetAnnounceReceiptTimer { duration } => { d.reset_receipt += 1; d.dur_receipt = duration; }
        PortAction::ResetFilterUpdateTimer { .. } => d.reset_filter += 1,
        PortAction::ForwardTLV { .. } => d.forward += 1,
    }
    None
}

/// Drain at most three actions (MAX_ACTIONS is 2; a third would be a contract violation when no TLVs
/// are attached). Copies the sent frames into `out_event` / `out_general` when given.
pub(crate) fn drain(mut it: PortActionIterator<'_>) -> (Drained, Option<TimestampContext>) {
    let mut d = Drained::default();
    let mut ctx = None;
    if let Some(a) = it.next() {
        if let Some(c) = account(&mut d, a) { ctx = Some(c); }
        if let Some(a) = it.next() {
            if let Some(c) = account(&mut d, a) { ctx = Some(c); }
            if let Some(a) = it.next() {
                d.overflow = true;
                let _ = account(&mut d, a);
            }
        }
    }
    core::mem::forget(it);
    (d, ctx)
}

/// Same, and copy the frame of the (single) send action into `frame`; returns its length.
pub(crate) fn drain_copy<const N: usize>(mut it: PortActionIterator<'_>, frame: &mut [u8; N]) -> (Drained, Option<TimestampContext>, usize) {
    let mut d = Drained::default();
    let mut ctx = None;
    let mut len = 0usize;
    let mut k = 0;
    while k < 3 {
        match it.next() {
            None => break,
            Some(a) => {
                if k == 2 { d.overflow = true; }
                match &a {
                    PortAction::SendEvent { data, .. } | PortAction::SendGeneral { data, .. } => {
                        len = data.len();
                        // byte-by-byte with constant indices (nested loops of 8): a memcpy out of the Port object
                        // makes CBMC's array post-processing explode (measured > 40 GB)
                        let mut i = 0;
                        while i < (N + 7) / 8 {
                            let mut j = 0;
                            while j < 8 {
                                let k = i * 8 + j;
                                if k < N && k < len { frame[k] = data[k]; }
                                j += 1;
                            }
                            i += 1;
                        }
                        d.decodes = crate::datastructures::messages::Message::deserialize(data).is_ok();
                    }
                    _ => {}
                }
                if let Some(c) = account(&mut d, a) { ctx = Some(c); }
            }
        }
        k += 1;
    }
    core::mem::forget(it);
    (d, ctx, len)
}

// ------------------------------------------------------------------------------------------
// observable state snapshot (C07 no-op comparisons)
// ------------------------------------------------------------------------------------------

#[derive(PartialEq, Eq, Clone, Copy)]
pub(crate) struct Snapshot {
    state_code: u8,
    remote: PortIdentity,
    sync_state: SyncState,
    delay_state: DelayState,
    last_raw: Option<Duration>,
    peer: PeerDelayState,
    mean_delay: Option<Duration>,
    multiport: Option<Duration>,
    seqs: [u16; 4],
    filter_count: u32,
    filter_updates: u32,
    clock_cmds: u32,
    clock_props: u32,
    demobilized: u32,
    filters_created: u32,
    default_ds: InternalDefaultDS,
    current_ds: InternalCurrentDS,
    parent_ppi: PortIdentity,
    parent_gm: ClockIdentity,
    parent_q: crate::config::ClockQuality,
    parent_p: [u8; 2],
    tp: TimePropertiesDS,
    path_len: usize,
    path_enable: bool,
    fm_len: usize,
}

pub(crate) fn snapshot<L>(p: &Port<'_, L, AcceptTwo, StubRng, RecClock, RecFilter, DepthCell>) -> Snapshot {
    let s = p.instance_state.peek();
    let (remote, sync_state, delay_state, last_raw) = match &p.port_state {
        PortState::Slave(ss) => (ss.remote_master, ss.sync_state, ss.delay_state, ss.last_raw_sync_offset),
        _ => (PortIdentity::default(), SyncState::Empty, DelayState::Empty, None),
    };
    Snapshot {
        state_code: state_code(&p.port_state),
        remote, sync_state, delay_state, last_raw,
        peer: p.peer_delay_state,
        mean_delay: p.mean_delay,
        multiport: p.multiport_disable,
        seqs: [seq_peek(&p.announce_seq_ids), seq_peek(&p.sync_seq_ids), seq_peek(&p.delay_seq_ids), seq_peek(&p.pdelay_seq_ids)],
        filter_count: p.filter.count,
        filter_updates: p.filter.updates,
        clock_cmds: p.clock.commands(),
        clock_props: p.clock.n_props,
        demobilized: demobilized(),
        filters_created: unsafe { FILTERS_CREATED },
        default_ds: s.default_ds,
        current_ds: s.current_ds,
        parent_ppi: s.parent_ds.parent_port_identity,
        parent_gm: s.parent_ds.grandmaster_identity,
        parent_q: s.parent_ds.grandmaster_clock_quality,
        parent_p: [s.parent_ds.grandmaster_priority_1, s.parent_ds.grandmaster_priority_2],
        tp: s.time_properties_ds,
        path_len: s.path_trace_ds.list.len(),
        path_enable: s.path_trace_ds.enable,
        fm_len: crate::bmc::bmca::verif_bmca::fm_len(&p.bmca),
    }
}


/// Drop-in replacement for `core::mem::swap` used via `#[kani::stub]` in harnesses that reach
/// `Port::set_forced_port_state`: the library implementation swaps in word-sized chunks inside a loop
/// (28 iterations for `PortState`), which forces a large global unwind bound; this version does the
/// same three moves with `memcpy`-style intrinsics. Semantically identical (trusted, listed in evidence).
pub(crate) fn swap_stub<T>(a: &mut T, b: &mut T) {
    unsafe {
        let t = core::ptr::read(a);
        core::ptr::copy_nonoverlapping(b as *const T, a as *mut T, 1);
        core::ptr::write(b, t);
    }
}

// ------------------------------------------------------------------------------------------
// InBmca ports (used by the instance-level BMCA harnesses in harness/instance)
// ------------------------------------------------------------------------------------------

pub(crate) fn mk_inbmca<'a>(state: &'a DepthCell, cfg: PortCfg, clock: RecClock, fcfg: RecFilterCfg, port_state: PortState) -> BPort<'a> {
    let pid = cfg.identity();
    Port {
        config: cfg.config(),
        filter_config: fcfg,
        clock,
        port_identity: pid,
        port_state,
        instance_state: state,
        bmca: Bmca::new(cfg.accept, announce_interval_ti(cfg.log_interval), pid),
        packet_buffer: [0; MAX_DATA_LEN],
        lifecycle: InBmca { pending_action: actions![], local_best: None },
        rng: StubRng(cfg.rng),
        multiport_disable: None,
        announce_seq_ids: SequenceIdGenerator::new(),
        sync_seq_ids: SequenceIdGenerator::new(),
        delay_seq_ids: SequenceIdGenerator::new(),
        pdelay_seq_ids: SequenceIdGenerator::new(),
        filter: RecFilter { cfg: fcfg, last: None, count: 0, updates: 0 },
        mean_delay: None,
        peer_delay_state: PeerDelayState::Empty,
    }
}

/// the actions `end_bmca` would hand to the host
pub(crate) fn take_pending(p: &mut BPort<'_>) -> Drained {
    let it = core::mem::replace(&mut p.lifecycle.pending_action, actions![]);
    drain(it).0
}

pub(crate) fn local_best(p: &BPort<'_>) -> Option<crate::bmc::bmca::BestAnnounceMessage> {
    p.lifecycle.local_best
}

pub(crate) struct PortView {
    pub code: u8,
    pub remote: Option<PortIdentity>,
    pub slots_empty: bool,
    pub multiport: Option<Duration>,
    pub clock_cmds: u32,
    pub clock_props: u32,
    pub filter_count: u32,
}

pub(crate) fn view<L>(p: &Port<'_, L, AcceptTwo, StubRng, RecClock, RecFilter, DepthCell>) -> PortView {
    let (remote, slots_empty) = match &p.port_state {
        PortState::Slave(s) => (Some(s.remote_master), s.sync_state == SyncState::Empty && s.delay_state == DelayState::Empty && s.last_raw_sync_offset.is_none()),
        _ => (None, true),
    };
    PortView { code: state_code(&p.port_state), remote, slots_empty, multiport: p.multiport_disable,
               clock_cmds: p.clock.commands(), clock_props: p.clock.n_props, filter_count: p.filter.count }
}

pub(crate) fn set_multiport<L>(p: &mut Port<'_, L, AcceptTwo, StubRng, RecClock, RecFilter, DepthCell>, v: Option<Duration>) {
    p.multiport_disable = v;
}

pub(crate) fn snapshot_default(s: &Snapshot) -> InternalDefaultDS {
    s.default_ds
}
