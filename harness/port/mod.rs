//! Port-level harnesses (child module of `port`, so private fields of `Port` are reachable).
#![allow(dead_code, unused_imports)]
use super::*;

pub(crate) mod common;
mod c09;
mod c14;
mod c10;
mod c11;
mod c12;
mod c07;
mod c03;
