//! C14: peer-delay measurement is exact and guarded against multiple responders.
//! One inductive step of each peer-delay handler from an arbitrary port / peer-delay state.
use super::common::*;
use super::super::state::{DelayState, PortState, SlaveState, SyncState};
use super::super::*;
use super::super::actions::TimestampContextInner;
use crate::datastructures::common::WireTimestamp;
use crate::datastructures::messages::{Header, PDelayRespFollowUpMessage, PDelayRespMessage};
use crate::verif_root::gen::*;

fn tb(t: Time) -> i128 { t.nanos().to_bits() as i128 }
fn db(d: Duration) -> i128 { d.nanos().to_bits() }
fn wire_bits(w: WireTimestamp) -> i128 { ((w.seconds as i128) * 1_000_000_000i128 + w.nanos as i128) << 32 }
fn corr_bits(h: &Header) -> i128 { (h.correction_field.0.to_bits() as i128) << 16 }

struct Pre {
    peer: PeerDelayState,
    state: u8,
    mean_delay: Option<Duration>,
}

fn setup<'a>(state: &'a DepthCell) -> (RPort<'a>, Pre, PortCfg, RecFilterCfg) {
    let cfg = PortCfg::any();
    let fcfg = any_filter_cfg();
    let remote = any_port_identity();
    let ps = any_port_state(remote);
    let code = state_code(&ps);
    let mut port = mk_running(state, cfg, RecClock::quiet(), fcfg, ps);
    havoc_small(&mut port);
    port.peer_delay_state = any_peer_delay_state();
    let pre = Pre { peer: port.peer_delay_state, state: code, mean_delay: port.mean_delay };
    (port, pre, cfg, fcfg)
}

/// the four times of a completed exchange, in 2^-32 ns: (t1, t2, t3, t4)
type Four = (i128, i128, i128, i128);

fn check_measured(port: &RPort<'_>, pre: &Pre, fcfg: &RecFilterCfg, d: &Drained, four: Four, id: u16, responder: PortIdentity) {
    let (t1, t2, t3, t4) = four;
    assert!(port.filter.count == 1, "C14: exactly one measurement");
    let m = port.filter.last.unwrap();
    let want = ((t4 - t1) - (t3 - t2)) / 2;
    assert!(m.peer_delay.map(db) == Some(want), "C14: link delay != ((t4-t1)-(t3-t2))/2 on the values of this exchange");
    assert!(tb(m.event_time) == t4);
    assert!(m.offset.is_none() && m.delay.is_none() && m.raw_sync_offset.is_none() && m.raw_delay_offset.is_none());
    assert!(port.peer_delay_state == PeerDelayState::PostMeasurement { id, responder_identity: responder }, "exchange must be consumed");
    let want_md = if fcfg.ret_delay.is_some() { fcfg.ret_delay } else { pre.mean_delay };
    assert!(port.mean_delay == want_md);
    assert!((d.reset_filter == 1) == fcfg.ret_update && d.n == d.reset_filter && d.sends() == 0);
    // recovery: a faulty port leaves the faulty state after an exchange answered by one responder
    if pre.state == ST_FAULTY {
        assert!(state_code(&port.port_state) == ST_LISTENING, "C14: faulty port did not recover after a single-responder exchange");
    } else {
        assert!(state_code(&port.port_state) == pre.state);
    }
}

fn check_faulted(port: &RPort<'_>, pre: &Pre, d: &Drained) {
    assert!(state_code(&port.port_state) == ST_FAULTY, "C14: second responder did not make the port faulty");
    assert!(port.filter.count == 0, "C14: the later response was used");
    assert!(port.peer_delay_state == pre.peer, "C14: the later response was recorded");
    assert!(d.none());
    assert!(port.mean_delay == pre.mean_delay);
}

fn check_ignored(port: &RPort<'_>, pre: &Pre, d: &Drained) {
    assert!(port.filter.count == 0);
    assert!(state_code(&port.port_state) == pre.state);
    assert!(d.none());
    assert!(port.mean_delay == pre.mean_delay);
}

fn check_inv(port: &RPort<'_>) {
    assert!(!peer_slot_complete(&port.peer_delay_state), "Inv: complete peer-delay exchange left unconsumed");
    if let PortState::Slave(ss) = &port.port_state {
        assert!(!slave_slots_complete(ss));
    }
    assert!(port.clock.commands() == 0);
    assert!(port.instance_state.is_free());
}

// @harness c14_pdelay_resp
// @props C14:quick C03:thorough C17:thorough
// @tier quick
// @variant lists2
// @timeout 1500
// @mem 8
// @stubbing yes
// @replay playback
// @functions Port::handle_peer_delay_response, Port::handle_time_measurement, Port::extract_measurement, Port::set_forced_port_state, Duration / f64 (2.0)
// @bounds one step from an arbitrary port state (all five states, Slave with arbitrary slots) and arbitrary peer-delay record (Empty / PostMeasurement / Measuring with any subset of responder, t1..t4 stored; Inv: not complete), any ids; response header fully symbolic (sequence id, correction, source, twoStep), request-receipt timestamp seconds < 2^48 and any nanoseconds, requesting identity symbolic
// @assume receive time in [2^47 ns, 2^63 ns) (no underflow of recv - correction; corner is C03's known-finding twin)
#[kani::proof]
#[kani::unwind(9)]
#[kani::stub(core::mem::swap, super::common::swap_stub)]
fn c14_pdelay_resp() {
    let state = any_state(0);
    let (mut port, pre, cfg, fcfg) = setup(&state);
    let h = any_header();
    let msg = PDelayRespMessage { request_receive_timestamp: any_wire_timestamp(), requesting_port_identity: any_port_identity() };
    let recv = any_time();
    kani::assume(tb(recv) >= (1i128 << (47 + 32)));
    let before = snapshot(&port);
    let (d, _) = drain(port.handle_peer_delay_response(h, msg, recv));
    let src = h.source_port_identity;
    let t4 = tb(recv) - corr_bits(&h);
    let t2 = wire_bits(msg.request_receive_timestamp);
    check_inv(&port);
    if msg.requesting_port_identity != cfg.identity() {
        assert!(snapshot(&port) == before && d.none(), "C14/C07: response to another requester had an effect");
        kani::cover!(true, "response for another requester");
    } else {
        match pre.peer {
            PeerDelayState::PostMeasurement { id, responder_identity } if id == h.sequence_id => {
                if responder_identity != src { check_faulted(&port, &pre, &d); kani::cover!(true, "second responder after measurement"); }
                else { check_ignored(&port, &pre, &d); assert!(port.peer_delay_state == pre.peer); }
            }
            PeerDelayState::Measuring { id, responder_identity, request_send_time, response_send_time, response_recv_time, .. } if id == h.sequence_id => {
                if responder_identity.is_some() && responder_identity != Some(src) {
                    check_faulted(&port, &pre, &d);
                    kani::cover!(true, "second responder during measurement");
                } else if response_recv_time.is_some() {
                    check_ignored(&port, &pre, &d);
                    assert!(port.peer_delay_state == pre.peer, "duplicate Pdelay_Resp must be ignored");
                    kani::cover!(true, "duplicate response");
                } else {
                    // this response is recorded; t3 is t2 for a one-step responder, else what an earlier follow-up stored
                    let t3 = if !h.two_step_flag { Some(t2) } else { response_send_time.map(tb) };
                    match (request_send_time, t3) {
                        (Some(t1), Some(t3)) => {
                            check_measured(&port, &pre, &fcfg, &d, (tb(t1), t2, t3, t4), id, src);
                            kani::cover!(!h.two_step_flag, "one-step responder measurement");
                            kani::cover!(h.two_step_flag, "two-step measurement completed by response (follow-up came first)");
                            kani::cover!(pre.state == ST_FAULTY, "recovery from faulty");
                        }
                        _ => {
                            check_ignored(&port, &pre, &d);
                            match port.peer_delay_state {
                                PeerDelayState::Measuring { id: i2, responder_identity: r2, request_send_time: s2, request_recv_time: q2, response_send_time: p2, response_recv_time: v2 } => {
                                    assert!(i2 == id && r2 == Some(src) && s2 == request_send_time);
                                    assert!(q2.map(tb) == Some(t2) && v2.map(tb) == Some(t4));
                                    assert!(p2.map(tb) == t3);
                                }
                                _ => panic!("response was not recorded"),
                            }
                            kani::cover!(true, "response recorded, exchange still open");
                        }
                    }
                }
            }
            _ => {
                check_ignored(&port, &pre, &d);
                assert!(port.peer_delay_state == pre.peer, "response for another request must be ignored");
                kani::cover!(true, "response for another request id");
            }
        }
    }
    core::mem::forget(port);
}

// @harness c14_pdelay_resp_follow_up
// @props C14:quick C03:thorough C17:thorough
// @tier quick
// @variant lists2
// @timeout 1500
// @mem 8
// @stubbing yes
// @replay playback
// @functions Port::handle_peer_delay_response_follow_up, Port::handle_time_measurement, Port::extract_measurement, Port::set_forced_port_state
// @bounds as c14_pdelay_resp; follow-up header, response origin timestamp and requesting identity fully symbolic
// @assume response origin timestamp seconds >= 2^18 (no underflow of t3 + negative correction; corner is C03's known-finding twin)
#[kani::proof]
#[kani::unwind(9)]
#[kani::stub(core::mem::swap, super::common::swap_stub)]
fn c14_pdelay_resp_follow_up() {
    let state = any_state(0);
    let (mut port, pre, cfg, fcfg) = setup(&state);
    let h = any_header();
    let msg = PDelayRespFollowUpMessage { response_origin_timestamp: any_wire_timestamp(), requesting_port_identity: any_port_identity() };
    kani::assume(msg.response_origin_timestamp.seconds >= (1 << 18));
    let before = snapshot(&port);
    let (d, _) = drain(port.handle_peer_delay_response_follow_up(h, msg));
    let src = h.source_port_identity;
    let t3 = wire_bits(msg.response_origin_timestamp) + corr_bits(&h);
    check_inv(&port);
    if msg.requesting_port_identity != cfg.identity() {
        assert!(snapshot(&port) == before && d.none(), "C14/C07: follow-up for another requester had an effect");
        kani::cover!(true, "follow-up for another requester");
    } else {
        match pre.peer {
            PeerDelayState::PostMeasurement { id, responder_identity } if id == h.sequence_id => {
                if responder_identity != src { check_faulted(&port, &pre, &d); kani::cover!(true, "second responder after measurement"); }
                else { check_ignored(&port, &pre, &d); assert!(port.peer_delay_state == pre.peer); }
            }
            PeerDelayState::Measuring { id, responder_identity, request_send_time, request_recv_time, response_send_time, response_recv_time } if id == h.sequence_id => {
                if responder_identity.is_some() && responder_identity != Some(src) {
                    check_faulted(&port, &pre, &d);
                    kani::cover!(true, "second responder during measurement");
                } else if response_send_time.is_some() {
                    check_ignored(&port, &pre, &d);
                    assert!(port.peer_delay_state == pre.peer, "duplicate follow-up must be ignored");
                    kani::cover!(true, "duplicate follow-up");
                } else {
                    match (request_send_time, request_recv_time, response_recv_time) {
                        (Some(t1), Some(t2), Some(t4)) => {
                            check_measured(&port, &pre, &fcfg, &d, (tb(t1), tb(t2), t3, tb(t4)), id, src);
                            kani::cover!(true, "two-step measurement completed by follow-up");
                        }
                        _ => {
                            check_ignored(&port, &pre, &d);
                            match port.peer_delay_state {
                                PeerDelayState::Measuring { id: i2, responder_identity: r2, request_send_time: s2, request_recv_time: q2, response_send_time: p2, response_recv_time: v2 } => {
                                    assert!(i2 == id && r2 == Some(src) && s2 == request_send_time && q2 == request_recv_time && v2 == response_recv_time);
                                    assert!(p2.map(tb) == Some(t3));
                                }
                                _ => panic!("follow-up was not recorded"),
                            }
                            kani::cover!(true, "follow-up recorded, exchange still open");
                        }
                    }
                }
            }
            _ => {
                check_ignored(&port, &pre, &d);
                assert!(port.peer_delay_state == pre.peer);
                kani::cover!(true, "follow-up for another request id");
            }
        }
    }
    core::mem::forget(port);
}

// @harness c14_pdelay_timestamp
// @props C14:quick C03:quick C17:quick
// @tier quick
// @variant lists2
// @timeout 1500
// @mem 8
// @stubbing yes
// @replay playback
// @functions Port::handle_send_timestamp, Port::handle_pdelay_timestamp, Port::extract_measurement
// @bounds as c14_pdelay_resp; transmit timestamp any Time in [0, 2^63 ns), context id any u16
#[kani::proof]
#[kani::unwind(9)]
#[kani::stub(core::mem::swap, super::common::swap_stub)]
fn c14_pdelay_timestamp() {
    let state = any_state(0);
    let (mut port, pre, _cfg, fcfg) = setup(&state);
    let tid: u16 = kani::any();
    let ts = any_time();
    let ctx = TimestampContext { inner: TimestampContextInner::PDelayReq { id: tid } };
    let (d, _) = drain(port.handle_send_timestamp(ctx, ts));
    check_inv(&port);
    match pre.peer {
        PeerDelayState::Measuring { id, responder_identity, request_send_time: None, request_recv_time, response_send_time, response_recv_time } if id == tid => {
            match (responder_identity, request_recv_time, response_send_time, response_recv_time) {
                (Some(r), Some(t2), Some(t3), Some(t4)) => {
                    check_measured(&port, &pre, &fcfg, &d, (tb(ts), tb(t2), tb(t3), tb(t4)), id, r);
                    kani::cover!(true, "measurement completed by late transmit timestamp");
                }
                _ => {
                    check_ignored(&port, &pre, &d);
                    assert!(port.peer_delay_state == PeerDelayState::Measuring { id, responder_identity, request_send_time: Some(ts), request_recv_time, response_send_time, response_recv_time });
                    kani::cover!(true, "transmit timestamp recorded");
                }
            }
        }
        _ => {
            check_ignored(&port, &pre, &d);
            assert!(port.peer_delay_state == pre.peer, "late or double transmit timestamp must be ignored");
            kani::cover!(matches!(pre.peer, PeerDelayState::Measuring { id, request_send_time: Some(_), .. } if id == tid), "double timestamp");
        }
    }
    core::mem::forget(port);
}
