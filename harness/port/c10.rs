//! C10: master-side messages carry exact timestamps and consistent identifiers.
use super::common::*;
use super::super::state::PortState;
use super::super::*;
use super::super::actions::TimestampContextInner;
use crate::datastructures::messages::{DelayReqMessage, Header, Message as WireMessage, PtpVersion};
use crate::verif_root::gen::*;
use crate::verif_root::refcodec::*;

/// time in 2^-16 ns (what origin timestamp + correctionField can express), floor
fn t16(t: Time) -> i128 {
    (t.nanos().to_bits() >> 16) as i128
}
/// whole nanoseconds
fn tns(t: Time) -> i128 {
    (t.nanos().to_bits() >> 32) as i128
}
/// timestamp field at `o` in nanoseconds
fn ts_ns(f: &[u8], o: usize) -> i128 {
    (be48(f, o) as i128) * 1_000_000_000 + be32(f, o + 6) as i128
}

fn setup<'a>(state: &'a DepthCell) -> (RPort<'a>, PortCfg, u8) {
    let cfg = PortCfg::any();
    let remote = any_port_identity();
    let ps = any_port_state(remote);
    let code = state_code(&ps);
    let mut port = mk_running(state, cfg, RecClock::quiet(), any_filter_cfg(), ps);
    havoc_small(&mut port);
    port.peer_delay_state = any_peer_delay_state();
    (port, cfg, code)
}

/// bytes 0..34 of every emitted frame: port identity, instance domain / sdoId, versionPTP 2
fn frame_header_ok(f: &[u8], len: usize, ty: u8, cfg: &PortCfg, st: &DepthCell, seq: u16) -> bool {
    let h = ref_header(f);
    let d = &st.peek().default_ds;
    h.message_type == ty
        && h.version == 2
        && h.minor_version == cfg.minor as u8
        && h.message_length as usize == len
        && len <= MAX_DATA_LEN
        && h.domain == d.domain_number
        && ((h.major_sdo_id as u16) << 8 | h.minor_sdo_id as u16) == u16::from(d.sdo_id)
        && h.source_clock == OWN_CLOCK.0
        && h.source_port == cfg.port_number
        && h.sequence_id == seq
        && h.control == ref_control(ty)
}

// @harness c10_send_sync
// @props C10 C08 C03 C17 C12
// @tier quick
// @variant dl128_lists2
// @timeout 1500
// @mem 16
// @stubbing yes
// @replay playback
// @functions Port::handle_sync_timer, Port::send_sync, Message::sync, Message::serialize, SequenceIdGenerator::generate, Interval::as_core_duration
// @bounds one step from an arbitrary port state (all five) with arbitrary sequence counters, instance data sets (domain, sdoId, identity attributes), port number, minor version; log sync interval concrete (0)
// @assume MAX_DATA_LEN scaled 1024 -> 128 and list capacities 8 -> 2 in the scratch copy (frame is 44 octets; buffers only)
#[kani::proof]
#[kani::unwind(9)]
#[kani::stub(crate::time::Interval::as_core_duration, crate::verif_root::stubs::as_core_duration_int)]
fn c10_send_sync() {
    let state = any_state(0);
    let (mut port, cfg, code) = setup(&state);
    let seq0 = seq_peek(&port.sync_seq_ids);
    let before = snapshot(&port);
    let mut f = [0u8; 64];
    let (d, ctx, len) = drain_copy(port.handle_sync_timer(), &mut f);
    assert!(d.send_event <= 1 && !d.overflow, "C10: more than one event send in one action set");
    if code == ST_MASTER {
        assert!(d.n == 2 && d.send_event == 1 && d.reset_sync == 1, "C10/C12: master must emit a Sync and re-arm the sync timer");
        assert!(d.dur_sync == core::time::Duration::from_secs(1), "C12: sync timer re-armed with the configured interval");
        assert!(len == 44 && frame_header_ok(&f, len, T_SYNC, &cfg, &state, seq0), "C10: Sync header");
        assert!(f[6] & F0_TWO_STEP != 0, "two-step Sync announces a Follow_Up");
        assert!(!d.event_link_local);
        assert!(matches!(ctx, Some(TimestampContext { inner: TimestampContextInner::Sync { id } }) if id == seq0), "C10: timestamp context carries the Sync's sequence id");
        assert!(seq_peek(&port.sync_seq_ids) == seq0.wrapping_add(1), "C10: Sync sequence ids increase by one modulo 2^16");
        assert!(WireMessage::deserialize(&f[..44]).is_ok(), "C10: emitted Sync does not decode under the library's own parser");
        kani::cover!(seq0 == 65535, "sequence id wrap-around");
    } else {
        assert!(d.none() && snapshot(&port) == before, "C08: Sync emitted / state changed by a non-master port");
    }
    assert!(port.instance_state.is_free());
    kani::cover!(code == ST_MASTER, "master emits");
    kani::cover!(code != ST_MASTER, "non-master silent");
    core::mem::forget(port);
}

// @harness c10_follow_up
// @props C10 C08 C03 C17
// @tier quick
// @variant dl128_lists2
// @stubbing yes
// @timeout 1500
// @mem 16
// @functions Port::handle_send_timestamp, Port::handle_sync_timestamp, Message::follow_up, Time::subnano, From<Time> for WireTimestamp, Message::serialize
// @bounds one step from an arbitrary port state; transmit timestamp any Time in [0, 2^63 ns) with 2^-32 ns fraction; context id any u16
// @assume Time::secs / Time::subsec_nanos replaced by their contract (stubs.rs); the contract itself is discharged by engine M under C16
#[kani::proof]
#[kani::unwind(9)]
#[kani::stub(crate::time::Time::secs, crate::verif_root::stubs::secs_contract)]
#[kani::stub(crate::time::Time::subsec_nanos, crate::verif_root::stubs::subsec_contract)]
fn c10_follow_up() {
    let state = any_state(0);
    let (mut port, cfg, code) = setup(&state);
    let id: u16 = kani::any();
    let t = any_time();
    let before = snapshot(&port);
    let mut f = [0u8; 64];
    let ctx = TimestampContext { inner: TimestampContextInner::Sync { id } };
    let (d, _, len) = drain_copy(port.handle_send_timestamp(ctx, t), &mut f);
    assert!(d.send_event == 0 && !d.overflow);
    if code == ST_MASTER {
        assert!(d.n == 1 && d.send_general == 1, "C10: exactly one Follow_Up per reported Sync transmit timestamp");
        assert!(len == 44 && frame_header_ok(&f, len, T_FOLLOW_UP, &cfg, &state, id), "C10: Follow_Up header / sequence id");
        let corr = ref_header(&f).correction as i128;
        assert!(ts_ns(&f, O_TS) * 65536 + corr == t16(t), "C10: preciseOriginTimestamp + correctionField != transmit timestamp to 2^-16 ns");
        assert!(be32(&f, O_TS + 6) < 1_000_000_000, "nanoseconds field must be below 10^9");
        assert!(corr >= 0 && corr < 65536, "sub-nanosecond remainder only");
        assert!(!d.general_link_local);
        assert!(WireMessage::deserialize(&f[..44]).is_ok(), "C10: emitted Follow_Up does not decode");
    } else {
        assert!(d.none(), "C08: Follow_Up emitted by a non-master port");
    }
    assert!(snapshot(&port) == before, "reporting a Sync transmit timestamp changes no state");
    assert!(port.instance_state.is_free());
    kani::cover!(code == ST_MASTER, "master emits");
    core::mem::forget(port);
}

// @harness c10_delay_resp
// @props C10 C08 C03 C17
// @tier quick
// @variant dl128_lists2
// @stubbing yes
// @timeout 1500
// @mem 16
// @functions Port::handle_delay_req, Message::delay_resp, Time::subnano, From<Time> for WireTimestamp, Message::serialize
// @bounds one step from an arbitrary port state; request header fully symbolic (correction any i64, identity, sequence id, flags) with the instance's domain/sdoId (what the byte gate lets through); receive time any Time in [0, 2^63 ns)
// @assume Time::secs / Time::subsec_nanos replaced by their contract (stubs.rs), discharged by engine M under C16
#[kani::proof]
#[kani::unwind(9)]
#[kani::stub(crate::time::Time::secs, crate::verif_root::stubs::secs_contract)]
#[kani::stub(crate::time::Time::subsec_nanos, crate::verif_root::stubs::subsec_contract)]
fn c10_delay_resp() {
    let state = any_state(0);
    let (mut port, cfg, code) = setup(&state);
    let mut h = any_header();
    h.domain_number = state.peek().default_ds.domain_number;
    h.sdo_id = state.peek().default_ds.sdo_id;
    h.version = PtpVersion::new(2, cfg.minor as u8).unwrap();
    let msg = DelayReqMessage { origin_timestamp: any_wire_timestamp() };
    let t = any_time();
    let before = snapshot(&port);
    let mut f = [0u8; 64];
    let (d, _, len) = drain_copy(port.handle_delay_req(h, msg, t), &mut f);
    assert!(d.send_event == 0 && !d.overflow);
    if code == ST_MASTER {
        assert!(d.n == 1 && d.send_general == 1, "C10: each Delay_Req is answered with exactly one Delay_Resp");
        assert!(len == 54 && frame_header_ok(&f, len, T_DELAY_RESP, &cfg, &state, h.sequence_id), "C10: Delay_Resp header / echoed sequence id");
        assert!(id8(&f, O_PORT_ID) == h.source_port_identity.clock_identity.0 && be16(&f, O_PORT_ID + 8) == h.source_port_identity.port_number,
            "C10: requestingPortIdentity must echo the requester");
        let creq = h.correction_field.0.to_bits() as i128;
        let corr = ref_header(&f).correction as i128;
        let want = t16(t) + creq;
        let have = ts_ns(&f, O_TS) * 65536 + corr;
        if creq + (t16(t) & 0xffff) <= i64::MAX as i128 {
            assert!(have == want, "C10: receiveTimestamp + correctionField != receive time + request correction to 2^-16 ns");
        } else {
            // the sum is not representable (the request's correction is the 'too big' sentinel range): saturate
            assert!(corr == i64::MAX as i128, "C10: unrepresentable correction must saturate");
        }
        assert!(be32(&f, O_TS + 6) < 1_000_000_000);
        assert!(f[33] as i8 == cfg.log_interval, "logMessageInterval = configured minimum delay request interval");
        assert!(f[6] & F0_TWO_STEP == 0);
        assert!(WireMessage::deserialize(&f[..54]).is_ok(), "C10: emitted Delay_Resp does not decode");
        kani::cover!(creq < 0, "negative request correction");
        kani::cover!(creq > (1i128 << 62), "huge request correction");
    } else {
        assert!(d.none(), "C08: Delay_Resp emitted by a non-master port");
    }
    assert!(snapshot(&port) == before, "answering a Delay_Req changes no state");
    assert!(port.instance_state.is_free());
    kani::cover!(code == ST_MASTER, "master answers");
    core::mem::forget(port);
}

// @harness c10_pdelay_resp
// @props C10 C14 C03 C17
// @tier quick
// @variant dl128_lists2
// @stubbing yes
// @timeout 1500
// @mem 16
// @functions Port::handle_pdelay_req, Message::pdelay_resp, From<Time> for WireTimestamp, Message::serialize
// @bounds one step from an arbitrary port state; request header fully symbolic; receive time any Time in [0, 2^63 ns)
// @assume Time::secs / Time::subsec_nanos replaced by their contract (stubs.rs), discharged by engine M under C16
#[kani::proof]
#[kani::unwind(9)]
#[kani::stub(crate::time::Time::secs, crate::verif_root::stubs::secs_contract)]
#[kani::stub(crate::time::Time::subsec_nanos, crate::verif_root::stubs::subsec_contract)]
fn c10_pdelay_resp() {
    let state = any_state(0);
    let (mut port, cfg, _code) = setup(&state);
    let h = any_header();
    let t = any_time();
    let before = snapshot(&port);
    let mut f = [0u8; 64];
    let (d, ctx, len) = drain_copy(port.handle_pdelay_req(h, t), &mut f);
    assert!(d.n == 1 && d.send_event == 1 && !d.overflow, "C10: each Pdelay_Req is answered with exactly one Pdelay_Resp");
    assert!(len == 54 && frame_header_ok(&f, len, T_PDELAY_RESP, &cfg, &state, h.sequence_id), "C10: Pdelay_Resp header / echoed sequence id");
    assert!(id8(&f, O_PORT_ID) == h.source_port_identity.clock_identity.0 && be16(&f, O_PORT_ID + 8) == h.source_port_identity.port_number,
        "C10: requestingPortIdentity must echo the requester");
    assert!(ts_ns(&f, O_TS) == tns(t), "C10: requestReceiptTimestamp != receive time to the nanosecond");
    assert!(be32(&f, O_TS + 6) < 1_000_000_000);
    assert!(ref_header(&f).correction == h.correction_field.0.to_bits(), "correction of the request is carried over");
    assert!(d.event_link_local, "peer delay messages are link local");
    assert!(matches!(ctx, Some(TimestampContext { inner: TimestampContextInner::PDelayResp { id, requestor_identity } })
        if id == h.sequence_id && requestor_identity == h.source_port_identity), "C10: context for the follow-up");
    assert!(WireMessage::deserialize(&f[..54]).is_ok(), "C10: emitted Pdelay_Resp does not decode");
    assert!(snapshot(&port) == before);
    assert!(port.instance_state.is_free());
    kani::cover!(true, "responder answers");
    core::mem::forget(port);
}

// @harness c10_pdelay_resp_follow_up
// @props C10 C14 C03 C17
// @tier quick
// @variant dl128_lists2
// @stubbing yes
// @timeout 1500
// @mem 16
// @functions Port::handle_send_timestamp, Port::handle_pdelay_response_timestamp, Message::pdelay_resp_follow_up, From<Time> for WireTimestamp, Message::serialize
// @bounds one step from an arbitrary port state; context id and requester identity symbolic; transmit time any Time in [0, 2^63 ns)
// @assume Time::secs / Time::subsec_nanos replaced by their contract (stubs.rs), discharged by engine M under C16
#[kani::proof]
#[kani::unwind(9)]
#[kani::stub(crate::time::Time::secs, crate::verif_root::stubs::secs_contract)]
#[kani::stub(crate::time::Time::subsec_nanos, crate::verif_root::stubs::subsec_contract)]
fn c10_pdelay_resp_follow_up() {
    let state = any_state(0);
    let (mut port, cfg, _code) = setup(&state);
    let id: u16 = kani::any();
    let requestor = any_port_identity();
    let t = any_time();
    let before = snapshot(&port);
    let mut f = [0u8; 64];
    let ctx = TimestampContext { inner: TimestampContextInner::PDelayResp { id, requestor_identity: requestor } };
    let (d, _, len) = drain_copy(port.handle_send_timestamp(ctx, t), &mut f);
    assert!(d.n == 1 && d.send_general == 1 && d.send_event == 0 && !d.overflow, "C10: exactly one Pdelay_Resp_Follow_Up per response transmit timestamp");
    assert!(len == 54 && frame_header_ok(&f, len, T_PDELAY_RESP_FOLLOW_UP, &cfg, &state, id), "C10: follow-up header / sequence id");
    assert!(id8(&f, O_PORT_ID) == requestor.clock_identity.0 && be16(&f, O_PORT_ID + 8) == requestor.port_number,
        "C10: requestingPortIdentity must echo the requester");
    assert!(ts_ns(&f, O_TS) == tns(t), "C10: responseOriginTimestamp != response transmit time to the nanosecond");
    assert!(be32(&f, O_TS + 6) < 1_000_000_000);
    assert!(d.general_link_local);
    assert!(WireMessage::deserialize(&f[..54]).is_ok(), "C10: emitted Pdelay_Resp_Follow_Up does not decode");
    assert!(snapshot(&port) == before);
    assert!(port.instance_state.is_free());
    kani::cover!(true, "responder follow-up");
    core::mem::forget(port);
}
