//! C10: master-side messages carry exact timestamps and consistent identifiers.
//!
//! The handlers are run with `Message::serialize` replaced by a recording stub (harness/messages:
//! `serialize_rec`), so the oracle looks at the *typed* message the handler hands to the serializer and
//! at the buffer it passes; that `serialize` writes exactly the Clause 13 octets for any typed message
//! is decided by the `c04_encode_*` harnesses (listed under C10 too). See DESIGN "emitting handlers".
use super::common::*;
use super::super::state::PortState;
use super::super::*;
use super::super::actions::TimestampContextInner;
use crate::datastructures::messages::verif_messages::{ser_body, ser_buf, ser_count, ser_header, ser_suffix_len};
use crate::datastructures::messages::{DelayReqMessage, Header, MessageBody, PtpVersion};
use crate::datastructures::common::WireTimestamp;
use crate::verif_root::gen::*;

/// time in 2^-16 ns (what origin timestamp + correctionField can express), floor
fn t16(t: Time) -> i128 {
    (t.nanos().to_bits() >> 16) as i128
}
fn tns(t: Time) -> i128 {
    (t.nanos().to_bits() >> 32) as i128
}
/// wire timestamp in whole nanoseconds - written in exactly the shape of the stub contract
/// (`(s as u128) * 10^9 + n as u128`) so that CBMC shares the multiplier instead of proving two
/// 128-bit multipliers equivalent
fn w_ns(w: WireTimestamp) -> u128 {
    (w.seconds as u128) * 1_000_000_000u128 + w.nanos as u128
}
fn whole_ns(t: Time) -> u128 {
    t.nanos().to_bits() >> 32
}
/// sub-nanosecond part in 2^-16 ns
fn sub16(t: Time) -> i128 {
    ((t.nanos().to_bits() >> 16) & 0xffff) as i128
}

fn setup<'a>(state: &'a DepthCell) -> (RPort<'a>, PortCfg, u8) {
    let cfg = PortCfg::any();
    let remote = any_port_identity();
    let ps = any_port_state(remote);
    let code = state_code(&ps);
    let mut port = mk_running(state, cfg, RecClock::quiet(), any_filter_cfg(), ps);
    havoc_small(&mut port);
    port.peer_delay_state = any_peer_delay_state();
    (port, cfg, code)
}

/// header fields every emitted message must carry: port identity, instance domain / sdoId, PTP 2.minor
fn own_header_ok(h: &Header, cfg: &PortCfg, st: &DepthCell, seq: u16) -> bool {
    let d = &st.peek().default_ds;
    h.source_port_identity == cfg.identity()
        && h.domain_number == d.domain_number
        && h.sdo_id == d.sdo_id
        && Some(h.version) == PtpVersion::new(2, cfg.minor as u8)
        && h.sequence_id == seq
}

/// the one frame of this action set is the prefix of the port's packet buffer that `serialize` filled
fn sent_is_serialized(port: &RPort<'_>, len: usize, want_len: usize) -> bool {
    let (addr, blen) = ser_buf();
    ser_count() == 1 && len == want_len && want_len <= MAX_DATA_LEN && addr == port.packet_buffer.as_ptr() as usize && blen == MAX_DATA_LEN && ser_suffix_len() == 0
}

// @harness c10_send_sync
// @props C10:quick C08:quick C12:quick C03:quick C17:thorough
// @tier quick
// @variant lists2
// @stubbing yes
// @timeout 1200
// @functions Port::handle_sync_timer, Port::send_sync, Message::sync, SequenceIdGenerator::generate
// @bounds one step from an arbitrary port state (all five) with arbitrary sequence counters, instance data sets (domain, sdoId, identity attributes), port number, minor version; log sync interval 0
// @assume Message::serialize replaced by the recording stub (typed oracle); octet-level encoding of any typed Sync is decided by c04_encode_sync
// @assume Interval::as_core_duration replaced by its integer equivalent (stubs.rs), validated for interval 0 by stub_interval_matches_real
#[kani::proof]
#[kani::unwind(9)]
#[kani::stub(crate::datastructures::messages::Message::serialize, crate::datastructures::messages::verif_messages::serialize_rec)]
#[kani::stub(crate::time::Interval::as_core_duration, crate::verif_root::stubs::as_core_duration_int)]
fn c10_send_sync() {
    let state = any_state(0);
    let (mut port, cfg, code) = setup(&state);
    let seq0 = seq_peek(&port.sync_seq_ids);
    let before = snapshot(&port);
    let (d, ctx) = drain(port.handle_sync_timer());
    assert!(d.send_event <= 1 && !d.overflow, "C10: more than one event send in one action set");
    if code == ST_MASTER {
        assert!(d.n == 2 && d.send_event == 1 && d.reset_sync == 1, "C10/C12: master must emit a Sync and re-arm the sync timer");
        assert!(d.dur_sync == core::time::Duration::new(1, 0), "C12: sync timer re-armed with the configured interval");
        assert!(sent_is_serialized(&port, d.event_len, 44), "C10: the sent frame is not the serialized Sync");
        let h = ser_header().unwrap();
        assert!(own_header_ok(&h, &cfg, &state, seq0), "C10: Sync header (identity / domain / sdoId / version / sequence id)");
        assert!(h.two_step_flag && h.correction_field.0.to_bits() == 0, "two-step Sync announces a Follow_Up");
        assert!(matches!(ser_body(), Some(MessageBody::Sync(_))), "C08/C10: sync timer must emit a Sync");
        assert!(!d.event_link_local);
        assert!(matches!(ctx, Some(TimestampContext { inner: TimestampContextInner::Sync { id } }) if id == seq0), "C10: timestamp context carries the Sync's sequence id");
        assert!(seq_peek(&port.sync_seq_ids) == seq0.wrapping_add(1), "C10: Sync sequence ids increase by one modulo 2^16");
        kani::cover!(seq0 == 65535, "sequence id wrap-around");
    } else {
        assert!(d.none() && ser_count() == 0 && snapshot(&port) == before, "C08: Sync emitted / state changed by a non-master port");
    }
    assert!(port.instance_state.is_free());
    kani::cover!(code == ST_MASTER, "master emits");
    kani::cover!(code != ST_MASTER, "non-master silent");
    core::mem::forget(port);
}

// @harness c10_follow_up
// @props C10:quick C08:quick C03:quick C17:quick
// @tier quick
// @variant lists2
// @stubbing yes
// @timeout 1500
// @functions Port::handle_send_timestamp, Port::handle_sync_timestamp, Message::follow_up, Time::subnano, From<Time> for WireTimestamp
// @bounds one step from an arbitrary port state; transmit timestamp any Time in [0, 2^63 ns) with 2^-32 ns fraction; context id any u16
// @assume Time::secs / Time::subsec_nanos replaced by their contract (stubs.rs); the contract itself is discharged by engine M (c16_secs_contract_for_stubs)
// @assume Message::serialize replaced by the recording stub; octet-level encoding decided by c04_encode_follow_up
#[kani::proof]
#[kani::unwind(9)]
#[kani::stub(crate::datastructures::messages::Message::serialize, crate::datastructures::messages::verif_messages::serialize_rec)]
#[kani::stub(crate::time::Time::secs, crate::verif_root::stubs::secs_contract)]
#[kani::stub(crate::time::Time::subsec_nanos, crate::verif_root::stubs::subsec_contract)]
fn c10_follow_up() {
    let state = any_state(0);
    let (mut port, cfg, code) = setup(&state);
    let id: u16 = kani::any();
    let t = any_time();
    let before = snapshot(&port);
    let ctx = TimestampContext { inner: TimestampContextInner::Sync { id } };
    let (d, _) = drain(port.handle_send_timestamp(ctx, t));
    assert!(d.send_event == 0 && !d.overflow);
    if code == ST_MASTER {
        assert!(d.n == 1 && d.send_general == 1, "C10: exactly one Follow_Up per reported Sync transmit timestamp");
        assert!(sent_is_serialized(&port, d.general_len, 44), "C10: the sent frame is not the serialized Follow_Up");
        let h = ser_header().unwrap();
        assert!(own_header_ok(&h, &cfg, &state, id), "C10: Follow_Up header / sequence id of the Sync");
        match ser_body() {
            Some(MessageBody::FollowUp(m)) => {
                let corr = h.correction_field.0.to_bits() as i128;
                // (seconds*10^9 + nanos) * 2^16 + correction == floor(t * 2^16), split into its two digits
                assert!(w_ns(m.precise_origin_timestamp) == whole_ns(t) && corr == sub16(t), "C10: preciseOriginTimestamp + correctionField != transmit timestamp to 2^-16 ns");
                assert!(m.precise_origin_timestamp.nanos < 1_000_000_000, "nanoseconds field must be below 10^9");
                assert!(m.precise_origin_timestamp.seconds < (1 << 48));
                assert!(corr >= 0 && corr < 65536, "sub-nanosecond remainder only");
            }
            _ => panic!("C08/C10: a Sync transmit timestamp must produce a Follow_Up"),
        }
        assert!(!d.general_link_local);
    } else {
        assert!(d.none() && ser_count() == 0, "C08: Follow_Up emitted by a non-master port");
    }
    assert!(snapshot(&port) == before, "reporting a Sync transmit timestamp changes no state");
    assert!(port.instance_state.is_free());
    kani::cover!(code == ST_MASTER, "master emits");
    kani::cover!(code != ST_MASTER, "non-master silent");
    core::mem::forget(port);
}

// @harness c10_delay_resp
// @props C10:quick C08:quick C03:thorough C17:thorough
// @tier quick
// @variant lists2
// @stubbing yes
// @timeout 1500
// @functions Port::handle_delay_req, Message::delay_resp, Time::subnano, From<Time> for WireTimestamp
// @bounds one step from an arbitrary port state; request header fully symbolic (correction any i64, identity, sequence id, flags) with the instance's domain/sdoId and the port's minor version (what the byte gate lets through); receive time any Time in [0, 2^63 ns)
// @assume Time::secs / Time::subsec_nanos replaced by their contract (stubs.rs), discharged by engine M
// @assume Message::serialize replaced by the recording stub; octet-level encoding decided by c04_encode_delay_resp
#[kani::proof]
#[kani::unwind(9)]
#[kani::stub(crate::datastructures::messages::Message::serialize, crate::datastructures::messages::verif_messages::serialize_rec)]
#[kani::stub(crate::time::Time::secs, crate::verif_root::stubs::secs_contract)]
#[kani::stub(crate::time::Time::subsec_nanos, crate::verif_root::stubs::subsec_contract)]
fn c10_delay_resp() {
    let state = any_state(0);
    let (mut port, cfg, code) = setup(&state);
    let mut rh = any_header();
    rh.domain_number = state.peek().default_ds.domain_number;
    rh.sdo_id = state.peek().default_ds.sdo_id;
    rh.version = PtpVersion::new(2, cfg.minor as u8).unwrap();
    let msg = DelayReqMessage { origin_timestamp: any_wire_timestamp() };
    let t = any_time();
    let before = snapshot(&port);
    let (d, _) = drain(port.handle_delay_req(rh, msg, t));
    assert!(d.send_event == 0 && !d.overflow);
    if code == ST_MASTER {
        assert!(d.n == 1 && d.send_general == 1, "C10: each Delay_Req is answered with exactly one Delay_Resp");
        assert!(sent_is_serialized(&port, d.general_len, 54), "C10: the sent frame is not the serialized Delay_Resp");
        let h = ser_header().unwrap();
        assert!(own_header_ok(&h, &cfg, &state, rh.sequence_id), "C10: Delay_Resp header / echoed sequence id");
        match ser_body() {
            Some(MessageBody::DelayResp(m)) => {
                assert!(m.requesting_port_identity == rh.source_port_identity, "C10: requestingPortIdentity must echo the requester");
                let creq = rh.correction_field.0.to_bits() as i128;
                let corr = h.correction_field.0.to_bits() as i128;
                assert!(w_ns(m.receive_timestamp) == whole_ns(t), "C10: receiveTimestamp != receive time to the nanosecond");
                if creq + sub16(t) <= i64::MAX as i128 {
                    assert!(corr == creq + sub16(t), "C10: receiveTimestamp + correctionField != receive time + request correction to 2^-16 ns");
                } else {
                    // the sum is not representable (the request's correction is in the 'too big' sentinel range): saturate
                    assert!(corr == i64::MAX as i128, "C10: unrepresentable correction must saturate");
                }
                assert!(m.receive_timestamp.nanos < 1_000_000_000 && m.receive_timestamp.seconds < (1 << 48));
                kani::cover!(creq < 0, "negative request correction");
                kani::cover!(creq > (1i128 << 62), "huge request correction");
            }
            _ => panic!("C08/C10: a Delay_Req must be answered with a Delay_Resp"),
        }
        assert!(h.log_message_interval == cfg.log_interval, "logMessageInterval = configured minimum delay request interval");
        assert!(!h.two_step_flag);
    } else {
        assert!(d.none() && ser_count() == 0, "C08: Delay_Resp emitted by a non-master port");
    }
    assert!(snapshot(&port) == before, "answering a Delay_Req changes no state");
    assert!(port.instance_state.is_free());
    kani::cover!(code == ST_MASTER, "master answers");
    core::mem::forget(port);
}

// @harness c10_pdelay_resp
// @props C10:quick C14:quick C03:thorough C17:thorough
// @tier quick
// @variant lists2
// @stubbing yes
// @timeout 1500
// @functions Port::handle_pdelay_req, Message::pdelay_resp, From<Time> for WireTimestamp
// @bounds one step from an arbitrary port state; request header fully symbolic; receive time any Time in [0, 2^63 ns)
// @assume Time::secs / Time::subsec_nanos replaced by their contract (stubs.rs), discharged by engine M
// @assume Message::serialize replaced by the recording stub; octet-level encoding decided by c04_encode_pdelay_resp
#[kani::proof]
#[kani::unwind(9)]
#[kani::stub(crate::datastructures::messages::Message::serialize, crate::datastructures::messages::verif_messages::serialize_rec)]
#[kani::stub(crate::time::Time::secs, crate::verif_root::stubs::secs_contract)]
#[kani::stub(crate::time::Time::subsec_nanos, crate::verif_root::stubs::subsec_contract)]
fn c10_pdelay_resp() {
    let state = any_state(0);
    let (mut port, cfg, _code) = setup(&state);
    let rh = any_header();
    let t = any_time();
    let before = snapshot(&port);
    let (d, ctx) = drain(port.handle_pdelay_req(rh, t));
    assert!(d.n == 1 && d.send_event == 1 && !d.overflow, "C10: each Pdelay_Req is answered with exactly one Pdelay_Resp");
    assert!(sent_is_serialized(&port, d.event_len, 54), "C10: the sent frame is not the serialized Pdelay_Resp");
    let h = ser_header().unwrap();
    assert!(own_header_ok(&h, &cfg, &state, rh.sequence_id), "C10: Pdelay_Resp header / echoed sequence id");
    match ser_body() {
        Some(MessageBody::PDelayResp(m)) => {
            assert!(m.requesting_port_identity == rh.source_port_identity, "C10: requestingPortIdentity must echo the requester");
            assert!(w_ns(m.request_receive_timestamp) == whole_ns(t), "C10: requestReceiptTimestamp != receive time to the nanosecond");
            assert!(m.request_receive_timestamp.nanos < 1_000_000_000);
        }
        _ => panic!("C10: a Pdelay_Req must be answered with a Pdelay_Resp"),
    }
    assert!(h.correction_field == rh.correction_field, "correction of the request is carried over");
    assert!(d.event_link_local, "peer delay messages are link local");
    assert!(matches!(ctx, Some(TimestampContext { inner: TimestampContextInner::PDelayResp { id, requestor_identity } })
        if id == rh.sequence_id && requestor_identity == rh.source_port_identity), "C10: context for the follow-up");
    assert!(snapshot(&port) == before);
    assert!(port.instance_state.is_free());
    kani::cover!(true, "responder answers");
    core::mem::forget(port);
}

// @harness c10_pdelay_resp_follow_up
// @props C10:quick C14:quick C03:thorough C17:thorough
// @tier quick
// @variant lists2
// @stubbing yes
// @timeout 1500
// @functions Port::handle_send_timestamp, Port::handle_pdelay_response_timestamp, Message::pdelay_resp_follow_up, From<Time> for WireTimestamp
// @bounds one step from an arbitrary port state; context id and requester identity symbolic; transmit time any Time in [0, 2^63 ns)
// @assume Time::secs / Time::subsec_nanos replaced by their contract (stubs.rs), discharged by engine M
// @assume Message::serialize replaced by the recording stub; octet-level encoding decided by c04_encode_pdelay_resp_follow_up
#[kani::proof]
#[kani::unwind(9)]
#[kani::stub(crate::datastructures::messages::Message::serialize, crate::datastructures::messages::verif_messages::serialize_rec)]
#[kani::stub(crate::time::Time::secs, crate::verif_root::stubs::secs_contract)]
#[kani::stub(crate::time::Time::subsec_nanos, crate::verif_root::stubs::subsec_contract)]
fn c10_pdelay_resp_follow_up() {
    let state = any_state(0);
    let (mut port, cfg, _code) = setup(&state);
    let id: u16 = kani::any();
    let requestor = any_port_identity();
    let t = any_time();
    let before = snapshot(&port);
    let ctx = TimestampContext { inner: TimestampContextInner::PDelayResp { id, requestor_identity: requestor } };
    let (d, _) = drain(port.handle_send_timestamp(ctx, t));
    assert!(d.n == 1 && d.send_general == 1 && d.send_event == 0 && !d.overflow, "C10: exactly one Pdelay_Resp_Follow_Up per response transmit timestamp");
    assert!(sent_is_serialized(&port, d.general_len, 54), "C10: the sent frame is not the serialized follow-up");
    let h = ser_header().unwrap();
    assert!(own_header_ok(&h, &cfg, &state, id), "C10: follow-up header / sequence id");
    match ser_body() {
        Some(MessageBody::PDelayRespFollowUp(m)) => {
            assert!(m.requesting_port_identity == requestor, "C10: requestingPortIdentity must echo the requester");
            assert!(w_ns(m.response_origin_timestamp) == whole_ns(t), "C10: responseOriginTimestamp != response transmit time to the nanosecond");
            assert!(m.response_origin_timestamp.nanos < 1_000_000_000);
        }
        _ => panic!("C10: a Pdelay_Resp transmit timestamp must produce a Pdelay_Resp_Follow_Up"),
    }
    assert!(d.general_link_local);
    assert!(snapshot(&port) == before);
    assert!(port.instance_state.is_free());
    kani::cover!(true, "responder follow-up");
    core::mem::forget(port);
}
