//! C07: traffic from unselected, unacceptable or foreign-domain sources has no effect; plus the
//! general Announce-receive step (C11-b data-set update, C15 receive side, C12 receipt timer).
use core::ops::ControlFlow;

use super::common::*;
use super::super::state::PortState;
use super::super::*;
use crate::datastructures::common::{ClockIdentity, TlvSet, TlvType};
use crate::datastructures::messages::{AnnounceMessage, DelayRespMessage, FollowUpMessage, Header, Message, MessageBody, SyncMessage};
use crate::verif_root::gen::*;
use crate::verif_root::refcodec::*;
use crate::verif_root::stubs::announce_duration_in_range;

fn setup<'a>(state: &'a DepthCell, remote: PortIdentity) -> (RPort<'a>, PortCfg, u8) {
    let cfg = PortCfg::any();
    let ps = any_port_state(remote);
    let code = state_code(&ps);
    let mut port = mk_running(state, cfg, RecClock::quiet(), any_filter_cfg(), ps);
    havoc_small(&mut port);
    port.peer_delay_state = any_peer_delay_state();
    (port, cfg, code)
}

// @harness c07_gate_short
// @props C07:quick C03:thorough C17:thorough
// @tier quick
// @variant dl128_lists2
// @timeout 1800
// @mem 13
// @functions Port::parse_and_filter, is_compatible, Message::deserialize, Header::deserialize_header
// @bounds frames of 0..=44 symbolic octets (every message type nibble, flags, lengths; complete Sync / Delay_Req / Follow_Up / Pdelay_Req frames, every other type only as a truncated frame), symbolic buffer length; arbitrary instance domain / sdoId; concrete listening port (parse_and_filter does not read the port state; 64-octet frames on a port in an arbitrary state: c07_gate, thorough tier)
// @assume frames longer than 64 octets differ only by more iterations of the TLV loop (decided separately under C04 up to 76 octets)
#[kani::proof]
#[kani::unwind(14)]
fn c07_gate_short() { gate_case(0) }

// @harness c07_gate
// @props C07:thorough C03:thorough C17:thorough
// @tier quick
// @variant lists2
// @timeout 1800
// @mem 14
// @functions Port::parse_and_filter, is_compatible, Message::deserialize, Header::deserialize_header
// @bounds every message type nibble on a port in an arbitrary state (all five, arbitrary slots): 64 symbolic octets, symbolic buffer length 0..=64; arbitrary instance domain / sdoId
// @assume frames longer than 64 octets differ only by more iterations of the TLV loop (decided separately under C04 up to 76 octets)
#[kani::proof]
#[kani::unwind(14)]
fn c07_gate() { gate_case(2) }

/// `part`: 0 = frames of at most 44 octets on a concrete listening port (the gate never looks at the port state),
/// 2 = frames of up to 64 octets on a port in an arbitrary state
fn gate_case(part: u8) {
    let state = any_state(0);
    let (mut port, _cfg, _code) = if part == 2 {
        setup(&state, any_port_identity())
    } else {
        let cfg = PortCfg::plain();
        (mk_running(&state, cfg, RecClock::quiet(), RecFilterCfg { ret_delay: None, ret_update: false }, PortState::Listening), cfg, ST_LISTENING)
    };
    let buf: [u8; 64] = kani::any();

    let len: usize = kani::any();
    kani::assume(len <= if part == 2 { 64 } else { 44 });
    let before = snapshot(&port);
    let b = &buf[..len];
    let rf = ref_frame(b, 3);
    let dom = state.peek().default_ds.domain_number;
    let sdo = u16::from(state.peek().default_ds.sdo_id);
    let pass = match port.parse_and_filter(b) {
        ControlFlow::Continue(m) => {
            let h = m.header;
            assert!(len >= 2 && (b[1] & 0x0f) == 2, "C07: frame with versionPTP != 2 passed the gate");
            assert!(rf.ok, "C07: malformed frame passed the gate");
            assert!(h.domain_number == dom && u16::from(h.sdo_id) == sdo, "C07: frame of another domain / sdoId passed the gate");
            assert!(b[4] == dom && (((b[0] as u16 & 0xf0) << 4) | b[5] as u16) == sdo, "C07: domain / sdoId read from the wrong octets");
            true
        }
        ControlFlow::Break(it) => {
            let (d, _) = drain(it);
            assert!(d.none(), "C07: rejected frame produced actions");
            // completeness: a well-formed frame of our domain and version is not dropped
            if len >= 34 && (b[1] & 0x0f) == 2 && rf.ok && !rf.last_tlv_zero {
                assert!(!(b[4] == dom && (((b[0] as u16 & 0xf0) << 4) | b[5] as u16) == sdo), "C07: valid frame of our own domain was dropped by the gate");
            }
            false
        }
    };
    assert!(snapshot(&port) == before, "C07: the gate changed port or instance state");
    assert!(port.instance_state.is_free());
    kani::cover!(pass, "frame passes");
    kani::cover!(!pass && len >= 34 && (b[1] & 0x0f) == 2 && rf.ok, "well-formed frame of a foreign domain dropped");
    kani::cover!(!pass && len >= 34 && (b[1] & 0x0f) == 1, "PTPv1 frame dropped");
    core::mem::forget(port);
}


fn announce_message<'a>(a: &AnnounceMessage, suffix: TlvSet<'a>) -> Message<'a> {
    Message { header: a.header, body: MessageBody::Announce(*a), suffix }
}

// @harness c07_announce_rejected
// @props C07:quick C03:quick C17:quick
// @tier quick
// @variant lists2
// @stubbing yes
// @timeout 1800
// @functions Port::handle_announce, Bmca::register_announce_message, AcceptableMasterList::is_acceptable
// @bounds one step from an arbitrary port state; fully symbolic Announce whose sender is outside the port's acceptable master list (two symbolic entries) or is the port's own port identity
// @assume Inv: the current parent of a slave port is an acceptable master and not the own port (it was registered through this gate)
// @assume Interval::as_core_duration / Duration::mul_f64 / core::mem::swap stubs as in c12_announce_receipt_timer
#[kani::proof]
#[kani::unwind(9)]
#[kani::stub(crate::time::Interval::as_core_duration, crate::verif_root::stubs::as_core_duration_int)]
#[kani::stub(core::time::Duration::mul_f64, crate::verif_root::stubs::mul_f64_contract)]
#[kani::stub(core::mem::swap, super::common::swap_stub)]
fn c07_announce_rejected() {
    let state = any_state(0);
    let remote = any_port_identity();
    let (mut port, cfg, code) = setup(&state, remote);
    let a = any_announce();
    let src = a.header.source_port_identity;
    let acceptable = cfg.accept.all || src.clock_identity == cfg.accept.a || src.clock_identity == cfg.accept.b;
    kani::assume(!acceptable || src == cfg.identity());
    // Inv (see header): a slave's parent passed this gate
    if code == ST_SLAVE {
        let parent = state.peek().parent_ds.parent_port_identity;
        kani::assume(parent != src);
    }
    let before = snapshot(&port);
    let msg = announce_message(&a, TlvSet::default());
    let (d, _) = drain(port.handle_announce(&msg, a));
    assert!(d.none(), "C07: Announce from an unacceptable master / own identity produced actions (timer reset or TLV forwarding)");
    assert!(snapshot(&port) == before, "C07: Announce from an unacceptable master / own identity changed state");
    assert!(port.instance_state.is_free());
    kani::cover!(!acceptable, "unacceptable master");
    kani::cover!(acceptable && src == cfg.identity(), "own port identity");
    core::mem::forget(port);
}

// @harness c07_slave_messages_in_other_states
// @props C07:quick C08:thorough C03:thorough C17:thorough
// @tier quick
// @variant lists2
// @timeout 1500
// @mem 15
// @functions Port::handle_sync, Port::handle_follow_up, Port::handle_delay_resp
// @bounds a port in Faulty / Listening / Master / Passive with arbitrary small state; fully symbolic Sync, Follow_Up and Delay_Resp (any source), arbitrary receive time
#[kani::proof]
#[kani::unwind(9)]
fn c07_slave_messages_in_other_states() {
    let state = any_state(0);
    let (mut port, _cfg, code) = setup(&state, any_port_identity());
    kani::assume(code != ST_SLAVE);
    let before = snapshot(&port);
    let (d1, _) = drain(port.handle_sync(any_header(), SyncMessage { origin_timestamp: any_wire_timestamp() }, any_time()));
    let (d2, _) = drain(port.handle_follow_up(any_header(), FollowUpMessage { precise_origin_timestamp: any_wire_timestamp() }));
    let (d3, _) = drain(port.handle_delay_resp(any_header(), DelayRespMessage { receive_timestamp: any_wire_timestamp(), requesting_port_identity: any_port_identity() }));
    assert!(d1.none() && d2.none() && d3.none(), "C07: slave-side message had an effect on a port that has no parent");
    assert!(snapshot(&port) == before);
    assert!(port.instance_state.is_free());
    kani::cover!(code == ST_MASTER, "master ignores");
    core::mem::forget(port);
}

/// drain an Announce's actions: the first is the receipt timer, then ForwardTLV actions (<= 3 TLVs in the suffix)
struct AnnDrain {
    n: u8,
    reset_receipt: u8,
    dur: core::time::Duration,
    fwd: u8,
    fwd_type: [u16; 3],
    fwd_len: [usize; 3],
    fwd_sender_ok: bool,
    other: u8,
}

fn drain_announce(mut it: PortActionIterator<'_>, sender: PortIdentity) -> AnnDrain {
    let mut r = AnnDrain { n: 0, reset_receipt: 0, dur: core::time::Duration::from_secs(0), fwd: 0, fwd_type: [0; 3], fwd_len: [0; 3], fwd_sender_ok: true, other: 0 };
    let mut k = 0;
    while k < 5 {
        match it.next() {
            None => break,
            Some(PortAction::ResetAnnounceReceiptTimer { duration }) => { r.reset_receipt += 1; r.dur = duration; r.n += 1; }
            Some(PortAction::ForwardTLV { tlv }) => {
                if (r.fwd as usize) < 3 {
                    r.fwd_type[r.fwd as usize] = tlv.tlv.tlv_type.to_primitive();
                    r.fwd_len[r.fwd as usize] = tlv.tlv.value.len();
                }
                if tlv.sender_identity != sender { r.fwd_sender_ok = false; }
                r.fwd += 1;
                r.n += 1;
                core::mem::forget(tlv);
            }
            Some(a) => { r.other += 1; r.n += 1; core::mem::forget(a); }
        }
        k += 1;
    }
    core::mem::forget(it);
    r
}

/// `part`: 0 = the port is a slave, 1 = it is in one of the other four states (the two parts cover every state)
fn announce_step(with_suffix: bool, part: u8) {
    let state = any_state(0);
    state.poke().path_trace_ds.enable = false;
    let remote = any_port_identity();
    let (mut port, cfg, code) = setup(&state, remote);
    kani::assume((code == ST_SLAVE) == (part == 0));
    if code == ST_SLAVE {
        // Inv: a slave's parent data set names its remote master
        state.poke().parent_ds.parent_port_identity = remote;
    }
    let a = any_announce();
    let src = a.header.source_port_identity;
    // concrete suffix: one propagating TLV (ORGANIZATION_EXTENSION_PROPAGATE, 2 octets) and one that is not (MANAGEMENT, 2 octets);
    // arbitrary suffixes are decided at iterator level by c15_receive_forwarding
    let sbuf: [u8; 12] = [0x40, 0x00, 0x00, 0x02, 0xaa, 0xbb, 0x00, 0x01, 0x00, 0x02, 0xcc, 0xdd];
    let slen: usize = if with_suffix { 12 } else { 0 };
    let suffix = match TlvSet::deserialize(&sbuf[..slen]) {
        Ok(s) => s,
        Err(_) => { kani::assume(false); TlvSet::default() }
    };
    let (wf, ntlv, _) = ref_tlv_walk(&sbuf[..slen], 3);
    assert!(wf, "TlvSet::deserialize accepted a malformed suffix");
    let pre = state.peek();
    let pre_parent = pre.parent_ds.clone();
    let pre_current = pre.current_ds;
    let pre_tp = pre.time_properties_ds;
    let pre_parent_id = pre.parent_ds.parent_port_identity;
    let own_clock = pre.default_ds.clock_identity;
    let before = snapshot(&port);
    let msg = announce_message(&a, suffix);
    let r = drain_announce(port.handle_announce(&msg, a), src);
    // stepsRemoved >= 255 can never qualify; what such an Announce from the parent does to the data sets is not
    // prescribed (C11 quantifies over 0..=254), only that it neither panics nor is recorded
    let from_parent = code == ST_SLAVE && src == pre_parent_id && a.steps_removed < 255;
    let unspecified = code == ST_SLAVE && src == pre_parent_id && a.steps_removed >= 255;
    let acceptable = cfg.accept.all || src.clock_identity == cfg.accept.a || src.clock_identity == cfg.accept.b;
    let accepted = acceptable && src != cfg.identity();
    let st = state.peek();
    // C11-b: data sets follow the parent's Announce (Table 33, decision code S1)
    if from_parent {
        assert!(st.current_ds.steps_removed == a.steps_removed + 1, "C11: stepsRemoved != parent's stepsRemoved + 1");
        assert!(st.parent_ds.parent_port_identity == src && st.parent_ds.grandmaster_identity == a.grandmaster_identity
            && st.parent_ds.grandmaster_clock_quality == a.grandmaster_clock_quality && st.parent_ds.grandmaster_priority_1 == a.grandmaster_priority_1
            && st.parent_ds.grandmaster_priority_2 == a.grandmaster_priority_2, "C11: parentDS does not follow the parent's Announce");
        let tp = st.time_properties_ds;
        assert!(tp.current_utc_offset == (if a.header.current_utc_offset_valid { Some(a.current_utc_offset) } else { None })
            && tp.ptp_timescale == a.header.ptp_timescale && tp.time_traceable == a.header.time_tracable
            && tp.frequency_traceable == a.header.frequency_tracable && tp.time_source == a.time_source, "C11: timePropertiesDS does not follow the parent's Announce");
        assert!((tp.leap_indicator == crate::config::LeapIndicator::Leap59) == a.header.leap59);
        assert!((tp.leap_indicator == crate::config::LeapIndicator::Leap61) == (a.header.leap61 && !a.header.leap59));
    } else if !unspecified {
        assert!(st.parent_ds == pre_parent && st.current_ds == pre_current && st.time_properties_ds == pre_tp, "C07/C11: data sets changed by an Announce that is not from the parent");
    }
    assert!(st.default_ds == before_default(&before));
    // acceptance, receipt timer, TLV forwarding
    if accepted {
        assert!(r.reset_receipt == 1 && r.other == 0, "C12: accepted Announce must re-arm the announce receipt timer");
        assert!(announce_duration_in_range(&port.config, r.dur), "C12: receipt timeout outside timeout * interval * [1, 2]");
        // C15 receive side: exactly the propagating TLVs, unmodified, in order, tagged with the sender
        let mut want = 0u8;
        let mut k = 0;
        while k < 3 {
            if k < ntlv {
                if let Some((ty, _off, l)) = ref_tlv_at(&sbuf[..slen], k) {
                    if ref_tlv_propagates(ty) {
                        assert!((want as usize) < 3 && r.fwd_type[want as usize] == ty && r.fwd_len[want as usize] == l, "C15: forwarded TLV differs from the received one / wrong order");
                        want += 1;
                    }
                }
            }
            k += 1;
        }
        assert!(r.fwd == want && r.fwd_sender_ok, "C15: set of TLVs offered for forwarding != propagating TLVs of the Announce");
        // handed to the foreign-master list exactly once, as received, with age zero (what the list does with it:
        // c07_foreign_master_registration)
        let _ = own_clock;
        assert!(crate::bmc::foreign_master::verif_fm::reg_count() == 1, "accepted Announce must be registered exactly once");
        match crate::bmc::foreign_master::verif_fm::reg_last() {
            Some((h, m, age)) => assert!(h == a.header && m == a && age == Duration::ZERO, "registered Announce differs from the received one"),
            None => panic!("not registered"),
        }
        // same-instance port on the segment: the higher-numbered port goes passive
        let sibling = src.clock_identity == cfg.identity().clock_identity && cfg.port_number > src.port_number;
        if sibling {
            assert!(state_code(&port.port_state) == ST_PASSIVE && port.multiport_disable == Some(Duration::ZERO));
        } else {
            assert!(state_code(&port.port_state) == code);
        }
        kani::cover!(!with_suffix || want == 1, "the propagating TLV is forwarded");
        kani::cover!(sibling, "multiport disable");
    } else {
        assert!(r.n == 0, "C07: rejected Announce produced actions");
        assert!(crate::bmc::foreign_master::verif_fm::reg_count() == 0 && state_code(&port.port_state) == code, "C07: rejected Announce reached the foreign-master list");
    }
    assert!(port.clock.commands() == 0 && port.filter.count == 0);
    assert!(port.instance_state.is_free());
    // C17: one API call changes the shared data sets in at most one exclusive section (an observer taking the lock
    // between two sections would see a half-applied update)
    assert!(state.mut_sections.get() <= 1, "C17: data set update of one Announce split over several lock sections");
    kani::cover!(part != 0 || (from_parent && accepted), "Announce from the parent (slave part)");
    kani::cover!(!from_parent && accepted, "Announce from another acceptable master");
    kani::cover!(!accepted, "rejected Announce");
    core::mem::forget(port);
}

// @harness c11_handle_announce_slave_no_tlv
// @props C11:quick C15:thorough C12:thorough C07:thorough C03:thorough C17:quick
// @tier quick
// @variant dl128_lists2
// @stubbing yes
// @timeout 2400
// @mem 12
// @functions Port::handle_announce, Bmca::register_announce_message, ForeignMasterList::register_announce_message, ForeignMasterList::is_announce_message_qualified, AnnounceMessage::time_properties, PortActionIterator::with_forward_tlvs
// @bounds case split over the port state (parts _slave and _other cover all five): the port is a slave (arbitrary remote, slots). One step with an empty foreign-master list; fully symbolic Announce (every stepsRemoved; the data-set update is asserted for 0..=254, for >= 255 only that nothing panics and nothing is recorded) from the parent or anyone else, without a TLV suffix; path trace off (the path-trace receive path is c15_path_trace_*)
// @assume Interval::as_core_duration / Duration::mul_f64 / core::mem::swap stubs as in c12_announce_receipt_timer
#[kani::proof]
#[kani::unwind(14)]
#[kani::stub(crate::time::Interval::as_core_duration, crate::verif_root::stubs::as_core_duration_int)]
#[kani::stub(core::time::Duration::mul_f64, crate::verif_root::stubs::mul_f64_contract)]
#[kani::stub(core::mem::swap, super::common::swap_stub)]
#[kani::stub(crate::bmc::foreign_master::ForeignMasterList::register_announce_message, crate::bmc::foreign_master::verif_fm::register_rec)]
fn c11_handle_announce_slave_no_tlv() { announce_step(false, 0) }

// @harness c11_handle_announce_slave
// @props C11:thorough C15:thorough C12:thorough C07:thorough C03:thorough C17:thorough
// @tier quick
// @variant dl128_lists2
// @stubbing yes
// @timeout 2400
// @mem 22
// @functions Port::handle_announce, Bmca::register_announce_message, ForeignMasterList::register_announce_message, ForeignMasterList::is_announce_message_qualified, AnnounceMessage::time_properties, PortActionIterator::with_forward_tlvs
// @bounds case split over the port state (parts _slave and _other cover all five): the port is a slave (arbitrary remote, slots). One step with an empty foreign-master list; fully symbolic Announce (every stepsRemoved; the data-set update is asserted for 0..=254, for >= 255 only that nothing panics and nothing is recorded) from the parent or anyone else, with a concrete suffix of one propagating and one non-propagating TLV; path trace off (the path-trace receive path is c15_path_trace_*)
// @assume Interval::as_core_duration / Duration::mul_f64 / core::mem::swap stubs as in c12_announce_receipt_timer
#[kani::proof]
#[kani::unwind(14)]
#[kani::stub(crate::time::Interval::as_core_duration, crate::verif_root::stubs::as_core_duration_int)]
#[kani::stub(core::time::Duration::mul_f64, crate::verif_root::stubs::mul_f64_contract)]
#[kani::stub(core::mem::swap, super::common::swap_stub)]
#[kani::stub(crate::bmc::foreign_master::ForeignMasterList::register_announce_message, crate::bmc::foreign_master::verif_fm::register_rec)]
fn c11_handle_announce_slave() { announce_step(true, 0) }

// @harness c11_handle_announce_other
// @props C11:thorough C15:thorough C12:thorough C07:thorough C03:thorough C17:thorough
// @tier quick
// @variant dl128_lists2
// @stubbing yes
// @timeout 2400
// @mem 22
// @functions Port::handle_announce, Bmca::register_announce_message, ForeignMasterList::register_announce_message, ForeignMasterList::is_announce_message_qualified, AnnounceMessage::time_properties, PortActionIterator::with_forward_tlvs
// @bounds case split over the port state (parts _slave and _other cover all five): the port is listening, master, passive or faulty. One step with an empty foreign-master list; fully symbolic Announce (every stepsRemoved; the data-set update is asserted for 0..=254, for >= 255 only that nothing panics and nothing is recorded) from the parent or anyone else, with a concrete suffix of one propagating and one non-propagating TLV; path trace off (the path-trace receive path is c15_path_trace_*)
// @assume Interval::as_core_duration / Duration::mul_f64 / core::mem::swap stubs as in c12_announce_receipt_timer
#[kani::proof]
#[kani::unwind(14)]
#[kani::stub(crate::time::Interval::as_core_duration, crate::verif_root::stubs::as_core_duration_int)]
#[kani::stub(core::time::Duration::mul_f64, crate::verif_root::stubs::mul_f64_contract)]
#[kani::stub(core::mem::swap, super::common::swap_stub)]
#[kani::stub(crate::bmc::foreign_master::ForeignMasterList::register_announce_message, crate::bmc::foreign_master::verif_fm::register_rec)]
fn c11_handle_announce_other() { announce_step(true, 1) }


// @harness c15_receive_forwarding
// @props C15:thorough C03:thorough
// @tier quick
// @variant lists2
// @timeout 1800
// @mem 16
// @functions PortActionIterator::next, PortActionIterator::with_forward_tlvs, TlvSetIterator::next, Tlv::deserialize, TlvType::from_primitive, TlvType::announce_propagate, TlvSet::deserialize
// @bounds case split (the parts of c15_receive_forwarding cover the whole input space between them): suffix length 0..=8 octets. the action iterator handle_announce returns for an accepted Announce, over any well-formed TLV suffix of <= 12 octets (<= 3 TLVs, all 2^16 types, any even lengths) and any sender identity
// @note handle_announce attaching exactly message.suffix.tlv() with the sender's identity (and only for accepted Announces) is decided by c11_handle_announce on a concrete suffix
#[kani::proof]
#[kani::unwind(14)]
fn c15_receive_forwarding() { receive_forwarding_case(2) }

fn receive_forwarding_case(part: u8) {
    let sbuf: [u8; 12] = kani::any();
    let slen: usize = kani::any();
    kani::assume(slen <= 12);
    if part != 2 { kani::assume((slen <= 8) == (part == 0)); }
    let sender = any_port_identity();
    let suffix = match TlvSet::deserialize(&sbuf[..slen]) {
        Ok(s) => s,
        Err(_) => { kani::assume(false); TlvSet::default() }
    };
    let (wf, ntlv, _) = ref_tlv_walk(&sbuf[..slen], 3);
    assert!(wf, "TlvSet::deserialize accepted a malformed suffix");
    let it: PortActionIterator<'_> = actions![PortAction::ResetAnnounceReceiptTimer { duration: core::time::Duration::new(3, 0) }];
    let r = drain_announce(it.with_forward_tlvs(suffix.tlv(), sender), sender);
    assert!(r.reset_receipt == 1 && r.other == 0);
    let mut want = 0u8;
    let mut k = 0;
    while k < 3 {
        if k < ntlv {
            if let Some((ty, _off, l)) = ref_tlv_at(&sbuf[..slen], k) {
                if ref_tlv_propagates(ty) {
                    assert!((want as usize) < 3 && r.fwd_type[want as usize] == ty && r.fwd_len[want as usize] == l, "C15: forwarded TLV differs from the received one / wrong order");
                    want += 1;
                }
            }
        }
        k += 1;
    }
    assert!(r.fwd == want && r.fwd_sender_ok, "C15: set of TLVs offered for forwarding != propagating TLVs of the Announce");
    kani::cover!(want == 2, "two TLVs forwarded");
    kani::cover!(want == 0 && ntlv == 2, "no TLV forwarded of two");
}


fn before_default(s: &Snapshot) -> crate::datastructures::datasets::InternalDefaultDS {
    snapshot_default(s)
}

// ------------------------------------------------------------------------------------------------
// Path trace on the receive side (C15) and the stepsRemoved + 1 corner (C11 / C03)
// ------------------------------------------------------------------------------------------------

fn path_trace_case(entries: usize, own_at: Option<usize>) {
    // slave port with path trace enabled, Announce from the parent carrying a PATH_TRACE TLV of `entries`
    // symbolic identities (optionally the own identity at index own_at)
    let state = any_state(1);
    state.poke().path_trace_ds.enable = true;
    let remote = any_port_identity();
    kani::assume(remote.clock_identity != OWN_CLOCK);
    state.poke().parent_ds.parent_port_identity = remote;
    let cfg = PortCfg::plain();
    let mut port = mk_running(&state, cfg, RecClock::quiet(), any_filter_cfg(), mk_slave_state(remote));
    let mut a = any_announce();
    a.header.source_port_identity = remote;
    kani::assume(a.steps_removed < 255);
    let mut sbuf = [0u8; 4 + 8 * 18];
    let ids: [u8; 8 * 18] = kani::any();
    sbuf[1] = 0x08; // PATH_TRACE
    sbuf[2] = ((8 * entries) >> 8) as u8;
    sbuf[3] = (8 * entries) as u8;
    let mut i = 0;
    while i < 18 {
        let mut j = 0;
        while j < 8 {
            if i < entries {
                let own_here = own_at == Some(i);
                sbuf[4 + 8 * i + j] = if own_here { OWN_CLOCK.0[j] } else { ids[8 * i + j] };
            }
            j += 1;
        }
        // no other entry equals the own identity
        if i < entries && own_at != Some(i) {
            kani::assume(ids[8 * i] != OWN_CLOCK.0[0]);
        }
        i += 1;
    }
    let suffix = TlvSet::deserialize(&sbuf[..4 + 8 * entries]).unwrap();
    let pre_parent = state.peek().parent_ds.clone();
    let pre_current = state.peek().current_ds;
    let pre_tp = state.peek().time_properties_ds;
    let pre_path0 = state.peek().path_trace_ds.list[0];
    let msg = announce_message(&a, suffix);
    let r = drain_announce(port.handle_announce(&msg, a), remote);
    let st = state.peek();
    let cap = MAX_DATA_LEN / 8;
    if own_at.is_some() {
        // C15: an Announce from the parent whose path already contains our identity is discarded
        assert!(r.n == 0, "C15: looped Announce produced actions");
        assert!(crate::bmc::foreign_master::verif_fm::reg_count() == 0, "C15: looped Announce was registered");
        assert!(st.path_trace_ds.list.len() == 1 && st.path_trace_ds.list[0] == pre_path0, "C15: looped path was stored");
        assert!(st.parent_ds == pre_parent && st.current_ds == pre_current && st.time_properties_ds == pre_tp,
            "C15: a discarded (looped) Announce changed the data sets");
    } else if entries <= cap {
        assert!(r.reset_receipt == 1, "accepted Announce");
        assert!(st.path_trace_ds.list.len() == entries, "C15: stored path != received path");
        if entries > 0 {
            assert!(st.path_trace_ds.list[0].0[1] == ids[1] && st.path_trace_ds.list[entries - 1].0[7] == ids[8 * (entries - 1) + 7]);
        }
    } else {
        // longer than the list can hold: must not panic (what is stored is not prescribed)
        assert!(st.path_trace_ds.list.len() <= cap);
    }
    assert!(port.instance_state.is_free());
    kani::cover!(true, "case reached its end");
    core::mem::forget(port);
}

// @harness c15_path_trace_stored
// @props C15:thorough
// @tier thorough
// @role best_effort
// @variant dl128_lists2
// @stubbing yes
// @timeout 2700
// @mem 34
// @functions Port::handle_announce (path trace block), TlvSetIterator::next, ArrayVec::from_iter
// @bounds slave port, path trace on, Announce from the parent with a PATH_TRACE TLV of 3 symbolic identities none of which is the own identity
// @assume MAX_DATA_LEN scaled to 128 (path capacity 16); stubs as in c11_handle_announce
#[kani::proof]
#[kani::unwind(20)]
#[kani::stub(crate::time::Interval::as_core_duration, crate::verif_root::stubs::as_core_duration_int)]
#[kani::stub(core::time::Duration::mul_f64, crate::verif_root::stubs::mul_f64_contract)]
#[kani::stub(core::mem::swap, super::common::swap_stub)]
#[kani::stub(crate::bmc::foreign_master::ForeignMasterList::register_announce_message, crate::bmc::foreign_master::verif_fm::register_rec)]
fn c15_path_trace_stored() { path_trace_case(3, None) }

// @harness c15_path_trace_loop
// @props C15:thorough C03:thorough
// @tier thorough
// @variant dl128_lists2
// @stubbing yes
// @timeout 2700
// @mem 34
// @functions Port::handle_announce (path trace block)
// @bounds as c15_path_trace_stored with the own identity in second position of a 3-entry path
// @assume as c15_path_trace_stored
#[kani::proof]
#[kani::unwind(20)]
#[kani::stub(crate::time::Interval::as_core_duration, crate::verif_root::stubs::as_core_duration_int)]
#[kani::stub(core::time::Duration::mul_f64, crate::verif_root::stubs::mul_f64_contract)]
#[kani::stub(core::mem::swap, super::common::swap_stub)]
#[kani::stub(crate::bmc::foreign_master::ForeignMasterList::register_announce_message, crate::bmc::foreign_master::verif_fm::register_rec)]
fn c15_path_trace_loop() { path_trace_case(3, Some(1)) }

// @harness c15_path_trace_over_capacity
// @props C15:thorough
// @tier thorough
// @role best_effort
// @variant dl128_lists2
// @stubbing yes
// @timeout 2700
// @mem 34
// @functions Port::handle_announce (path trace block), ArrayVec::from_iter
// @bounds as c15_path_trace_stored with capacity + 1 = 17 entries (129 at the real MAX_DATA_LEN; the UDP general socket buffer of the daemon is 2048 octets)
// @assume as c15_path_trace_stored
#[kani::proof]
#[kani::unwind(20)]
#[kani::stub(crate::time::Interval::as_core_duration, crate::verif_root::stubs::as_core_duration_int)]
#[kani::stub(core::time::Duration::mul_f64, crate::verif_root::stubs::mul_f64_contract)]
#[kani::stub(core::mem::swap, super::common::swap_stub)]
#[kani::stub(crate::bmc::foreign_master::ForeignMasterList::register_announce_message, crate::bmc::foreign_master::verif_fm::register_rec)]
fn c15_path_trace_over_capacity() { path_trace_case(17, None) }

// @harness c11_parent_announce_steps_65535
// @props C11:quick C03:quick
// @tier quick
// @variant lists2
// @stubbing yes
// @timeout 1500
// @mem 10
// @functions Port::handle_announce (S1 data set update)
// @bounds slave port, Announce from the parent with stepsRemoved = 65535 (all other fields symbolic)
// @assume stubs as in c11_handle_announce
#[kani::proof]
#[kani::unwind(14)]
#[kani::stub(crate::time::Interval::as_core_duration, crate::verif_root::stubs::as_core_duration_int)]
#[kani::stub(core::time::Duration::mul_f64, crate::verif_root::stubs::mul_f64_contract)]
#[kani::stub(core::mem::swap, super::common::swap_stub)]
#[kani::stub(crate::bmc::foreign_master::ForeignMasterList::register_announce_message, crate::bmc::foreign_master::verif_fm::register_rec)]
fn c11_parent_announce_steps_65535() {
    let state = any_state(0);
    state.poke().path_trace_ds.enable = false;
    let remote = any_port_identity();
    kani::assume(remote.clock_identity != OWN_CLOCK);
    state.poke().parent_ds.parent_port_identity = remote;
    let cfg = PortCfg::plain();
    let mut port = mk_running(&state, cfg, RecClock::quiet(), any_filter_cfg(), mk_slave_state(remote));
    let mut a = any_announce();
    a.header.source_port_identity = remote;
    a.steps_removed = 65535;
    let pre_steps = state.peek().current_ds.steps_removed;
    let msg = announce_message(&a, TlvSet::default());
    let r = drain_announce(port.handle_announce(&msg, a), remote);
    // an Announce that can never qualify (stepsRemoved >= 255) must not turn into stepsRemoved 0 (wrap) in our own Announces
    let post = state.peek().current_ds.steps_removed;
    assert!(post == pre_steps || post == 65535, "C11: stepsRemoved wrapped around");
    // (whether the list records it is decided by c07_foreign_master_registration: stepsRemoved >= 255 never is)
    let _ = r;
    kani::cover!(true, "handled without panic");
    core::mem::forget(port);
}
