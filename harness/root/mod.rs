//! Shared reference models and generators, mounted at the crate root as `verif_root`.
//! Written independently of statime's implementation (from IEEE 1588-2019 Clause 9.3 / 13 as
//! remembered by the author of the harness); nothing here is called by statime code.
#![allow(dead_code, unused_imports)]

pub(crate) mod refbmca;
pub(crate) mod refcodec;
pub(crate) mod gen;
mod time;
pub(crate) mod stubs;
