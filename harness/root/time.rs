//! Engine-K harnesses for time arithmetic (C16), second verdict next to engine M.
