//! Engine-K harnesses for time arithmetic (C16): an independent second verdict, by bit-blasting the
//! compiled `fixed` code itself, for the obligations engine M decides through summaries (everything
//! that does not divide by 10^9).
use crate::datastructures::common::{TimeInterval, WireTimestamp};
use crate::time::{Duration, Time};
use super::gen::*;

fn tb(t: Time) -> u128 { t.nanos().to_bits() }
fn db(d: Duration) -> i128 { d.nanos().to_bits() }

// @harness c16_k_add_sub_roundtrip
// @props C16:quick
// @tier quick
// @timeout 600
// @functions Add<Duration> for Time, Sub<Duration> for Time, Sub<Time> for Time, Neg for Duration, Duration::from_fixed_nanos
// @bounds every Time below 2^63 ns (2^-32 ns resolution) and every Duration |d| < 2^95 * 2^-32 ns with t + d >= 0; the compiled fixed-crate code is executed, nothing is summarised
#[kani::proof]
#[kani::unwind(5)]
fn c16_k_add_sub_roundtrip() {
    let t = any_time();
    let d = any_duration_bits(96);
    kani::assume(tb(t) as i128 + db(d) >= 0);
    let s = t + d;
    assert!(tb(s) as i128 == tb(t) as i128 + db(d), "t + d is not exact");
    assert!(s - d == t, "(t + d) - d != t");
    assert!(s - t == d, "(t + d) - t != d");
    kani::cover!(db(d) < 0, "negative duration");
    kani::cover!(db(d) > 0 && (db(d) & 0xffff_ffff) != 0, "positive duration with sub-ns part");
}

// @harness c16_k_wire_and_interval
// @props C16:quick
// @tier quick
// @timeout 600
// @functions From<WireTimestamp> for Time, From<TimeInterval> for Duration, From<Duration> for TimeInterval
// @bounds every wire timestamp (seconds < 2^48, any u32 nanoseconds), every i64 TimeInterval bit pattern, every Duration within +-2^79 units
#[kani::proof]
#[kani::unwind(5)]
fn c16_k_wire_and_interval() {
    let w = any_wire_timestamp();
    let t = Time::from(w);
    assert!(tb(t) == ((w.seconds as u128) * 1_000_000_000 + w.nanos as u128) << 32, "WireTimestamp -> Time is not exact");
    let b: i64 = kani::any();
    let ti = TimeInterval(fixed::types::I48F16::from_bits(b));
    let d = Duration::from(ti);
    assert!(db(d) == (b as i128) << 16, "TimeInterval -> Duration is not exact");
    assert!(TimeInterval::from(d) == ti, "TimeInterval -> Duration -> TimeInterval is not the identity");
    let x = any_duration_bits(80);
    let back = TimeInterval::from(x).0.to_bits() as i128;
    assert!(back * 65536 <= db(x) && db(x) - back * 65536 < 65536, "Duration -> TimeInterval does not round toward minus infinity");
    kani::cover!(db(x) < 0 && (db(x) & 0xffff) != 0, "negative duration with bits below 2^-16 ns");
}
