//! Reference codec: IEEE 1588-2019 Clause 13 as a plain offset/width/byte-order table.
//! Shares no code with statime's `datastructures`; works on raw bytes and plain integers only.

pub(crate) const T_SYNC: u8 = 0x0;
pub(crate) const T_DELAY_REQ: u8 = 0x1;
pub(crate) const T_PDELAY_REQ: u8 = 0x2;
pub(crate) const T_PDELAY_RESP: u8 = 0x3;
pub(crate) const T_FOLLOW_UP: u8 = 0x8;
pub(crate) const T_DELAY_RESP: u8 = 0x9;
pub(crate) const T_PDELAY_RESP_FOLLOW_UP: u8 = 0xa;
pub(crate) const T_ANNOUNCE: u8 = 0xb;
pub(crate) const T_SIGNALING: u8 = 0xc;
pub(crate) const T_MANAGEMENT: u8 = 0xd;

pub(crate) const HEADER_LEN: usize = 34;

/// 13.3.1 Table 35 (common header)
#[derive(Clone, Copy, PartialEq, Eq)]
pub(crate) struct RefHeader {
    pub major_sdo_id: u8,   // octet 0 bits 7..4
    pub message_type: u8,   // octet 0 bits 3..0
    pub minor_version: u8,  // octet 1 bits 7..4
    pub version: u8,        // octet 1 bits 3..0
    pub message_length: u16, // octets 2..3
    pub domain: u8,         // octet 4
    pub minor_sdo_id: u8,   // octet 5
    pub flags0: u8,         // octet 6
    pub flags1: u8,         // octet 7
    pub correction: i64,    // octets 8..15
    pub source_clock: [u8; 8], // octets 20..27
    pub source_port: u16,   // octets 28..29
    pub sequence_id: u16,   // octets 30..31
    pub control: u8,        // octet 32
    pub log_interval: i8,   // octet 33
}

pub(crate) fn be16(b: &[u8], o: usize) -> u16 {
    ((b[o] as u16) << 8) | (b[o + 1] as u16)
}

pub(crate) fn be32(b: &[u8], o: usize) -> u32 {
    ((b[o] as u32) << 24) | ((b[o + 1] as u32) << 16) | ((b[o + 2] as u32) << 8) | (b[o + 3] as u32)
}

pub(crate) fn be48(b: &[u8], o: usize) -> u64 {
    ((b[o] as u64) << 40) | ((b[o + 1] as u64) << 32) | ((b[o + 2] as u64) << 24) | ((b[o + 3] as u64) << 16)
        | ((b[o + 4] as u64) << 8) | (b[o + 5] as u64)
}

pub(crate) fn be64(b: &[u8], o: usize) -> u64 {
    ((be32(b, o) as u64) << 32) | (be32(b, o + 4) as u64)
}

pub(crate) fn id8(b: &[u8], o: usize) -> [u8; 8] {
    [b[o], b[o + 1], b[o + 2], b[o + 3], b[o + 4], b[o + 5], b[o + 6], b[o + 7]]
}

/// requires b.len() >= 34
pub(crate) fn ref_header(b: &[u8]) -> RefHeader {
    RefHeader {
        major_sdo_id: b[0] >> 4,
        message_type: b[0] & 0x0f,
        minor_version: b[1] >> 4,
        version: b[1] & 0x0f,
        message_length: be16(b, 2),
        domain: b[4],
        minor_sdo_id: b[5],
        flags0: b[6],
        flags1: b[7],
        correction: be64(b, 8) as i64,
        source_clock: id8(b, 20),
        source_port: be16(b, 28),
        sequence_id: be16(b, 30),
        control: b[32],
        log_interval: b[33] as i8,
    }
}

// flag bit positions, 13.3.2.8 Table 37
pub(crate) const F0_ALTERNATE_MASTER: u8 = 0x01;
pub(crate) const F0_TWO_STEP: u8 = 0x02;
pub(crate) const F0_UNICAST: u8 = 0x04;
pub(crate) const F0_PROFILE_1: u8 = 0x20;
pub(crate) const F0_PROFILE_2: u8 = 0x40;
pub(crate) const F0_DEFINED: u8 = 0x67;
pub(crate) const F1_LEAP61: u8 = 0x01;
pub(crate) const F1_LEAP59: u8 = 0x02;
pub(crate) const F1_UTC_VALID: u8 = 0x04;
pub(crate) const F1_PTP_TIMESCALE: u8 = 0x08;
pub(crate) const F1_TIME_TRACEABLE: u8 = 0x10;
pub(crate) const F1_FREQ_TRACEABLE: u8 = 0x20;
pub(crate) const F1_SYNC_UNCERTAIN: u8 = 0x40;
pub(crate) const F1_DEFINED: u8 = 0x7f;

/// body length (octets after the common header, before any TLV) per 13.5 - 13.13
pub(crate) fn ref_body_len(t: u8) -> Option<usize> {
    match t {
        T_SYNC | T_DELAY_REQ | T_FOLLOW_UP => Some(10),
        T_PDELAY_REQ | T_PDELAY_RESP | T_DELAY_RESP | T_PDELAY_RESP_FOLLOW_UP => Some(20),
        T_ANNOUNCE => Some(30),
        T_SIGNALING => Some(10),
        T_MANAGEMENT => Some(14),
        _ => None,
    }
}

/// 13.3.2.13 Table 42: controlField by message type
pub(crate) fn ref_control(t: u8) -> u8 {
    match t {
        T_SYNC => 0,
        T_DELAY_REQ => 1,
        T_FOLLOW_UP => 2,
        T_DELAY_RESP => 3,
        T_MANAGEMENT => 4,
        _ => 5,
    }
}

// field offsets from the start of the message
pub(crate) const O_TS: usize = 34;          // first Timestamp of every body that has one (seconds 6, nanoseconds 4)
pub(crate) const O_PORT_ID: usize = 44;     // requestingPortIdentity of Delay_Resp / Pdelay_Resp / Pdelay_Resp_Follow_Up
pub(crate) const O_ANN_UTC: usize = 44;     // currentUtcOffset (Integer16)
pub(crate) const O_ANN_P1: usize = 47;      // grandmasterPriority1 (octet 46 is reserved)
pub(crate) const O_ANN_CLASS: usize = 48;
pub(crate) const O_ANN_ACC: usize = 49;
pub(crate) const O_ANN_VAR: usize = 50;     // offsetScaledLogVariance (UInteger16)
pub(crate) const O_ANN_P2: usize = 52;
pub(crate) const O_ANN_GM: usize = 53;      // grandmasterIdentity (8)
pub(crate) const O_ANN_STEPS: usize = 61;   // stepsRemoved (UInteger16)
pub(crate) const O_ANN_SOURCE: usize = 63;  // timeSource
pub(crate) const O_TARGET: usize = 34;      // targetPortIdentity of Signaling / Management
pub(crate) const O_MGMT_START_HOPS: usize = 44;
pub(crate) const O_MGMT_HOPS: usize = 45;
pub(crate) const O_MGMT_ACTION: usize = 46; // low nibble; high nibble reserved; octet 47 reserved

/// Is the suffix (bytes after the body, up to messageLength) a concatenation of TLVs, each with a
/// 4-octet header and an even lengthField, that exactly fills it? (14.1)
/// Returns (well_formed, number_of_tlvs, last_tlv_has_zero_length).
pub(crate) fn ref_tlv_walk(s: &[u8], max_tlvs: usize) -> (bool, usize, bool) {
    let mut off = 0usize;
    let mut n = 0usize;
    let mut last_zero = false;
    let mut k = 0;
    while k < max_tlvs + 1 {
        if off == s.len() {
            return (true, n, last_zero);
        }
        if s.len() - off < 4 {
            return (false, n, false);
        }
        let len = be16(s, off + 2) as usize;
        if len % 2 != 0 {
            return (false, n, false);
        }
        if s.len() - off - 4 < len {
            return (false, n, false);
        }
        last_zero = len == 0;
        off += 4 + len;
        n += 1;
        k += 1;
    }
    // more TLVs than the bound of the caller
    (off == s.len(), n, last_zero)
}

/// (type, value offset, value length) of the k-th TLV of a well-formed suffix
pub(crate) fn ref_tlv_at(s: &[u8], k: usize) -> Option<(u16, usize, usize)> {
    let mut off = 0usize;
    let mut i = 0usize;
    while i <= k {
        if s.len() - off < 4 {
            return None;
        }
        let len = be16(s, off + 2) as usize;
        if i == k {
            return Some((be16(s, off), off + 4, len));
        }
        off += 4 + len;
        i += 1;
    }
    None
}

/// 14.1.1 / Table 52 + 14.2: does a boundary clock propagate a TLV of this type attached to an Announce?
/// (PATH_TRACE 0x0008, ALTERNATE_TIME_OFFSET_INDICATOR 0x0009, and the forward range 0x4000..0x7FFF)
pub(crate) fn ref_tlv_propagates(t: u16) -> bool {
    t == 0x0008 || t == 0x0009 || (t >= 0x4000 && t <= 0x7fff)
}

pub(crate) struct RefFrame {
    pub ok: bool,
    pub m: usize,             // messageLength
    pub body: usize,          // body length
    pub tlvs: usize,
    pub last_tlv_zero: bool,
}

/// Frame acceptance per Clause 13: at least a header, known type, 34 + body <= messageLength <= buffer,
/// suffix well formed. (versionPTP and domain screening are the port's job, not the codec's.)
pub(crate) fn ref_frame(b: &[u8], max_tlvs: usize) -> RefFrame {
    let bad = RefFrame { ok: false, m: 0, body: 0, tlvs: 0, last_tlv_zero: false };
    if b.len() < HEADER_LEN {
        return bad;
    }
    let body = match ref_body_len(b[0] & 0x0f) {
        Some(x) => x,
        None => return bad,
    };
    let m = be16(b, 2) as usize;
    if m < HEADER_LEN + body || m > b.len() {
        return bad;
    }
    let (wf, n, lz) = ref_tlv_walk(&b[HEADER_LEN + body..m], max_tlvs);
    RefFrame { ok: wf, m, body, tlvs: n, last_tlv_zero: lz }
}

/// clockAccuracy octets that Table 5 leaves reserved
pub(crate) fn acc_reserved(v: u8) -> bool {
    v <= 0x16 || (v >= 0x32 && v <= 0x7f) || v == 0xff
}

/// Per-octet mask of the bits Clause 13 defines for a frame of type `t` (index < 34 + body).
/// Excluded: reserved bits/octets, messageTypeSpecific (16..19), controlField (32: transmitted value is
/// fixed by Table 42 and ignored on receipt) and enumeration octets whose *value* is reserved
/// (handled separately by the caller).
pub(crate) fn defined_mask(t: u8, i: usize) -> u8 {
    if i < HEADER_LEN {
        return match i {
            6 => F0_DEFINED,
            7 => F1_DEFINED,
            16..=19 => 0,
            32 => 0,
            _ => 0xff,
        };
    }
    match t {
        T_PDELAY_REQ => if i < 44 { 0xff } else { 0 },
        T_ANNOUNCE => if i == 46 { 0 } else { 0xff },
        T_MANAGEMENT => match i {
            46 => 0x0f,
            47 => 0,
            _ => 0xff,
        },
        _ => 0xff,
    }
}
