//! Reference codec (IEEE 1588-2019 Clause 13), filled in with the C04 harnesses.
