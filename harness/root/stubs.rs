//! Contract stubs (assume-guarantee between engine K and engine M, DESIGN 1.3).
//!
//! `Time::secs` / `Time::subsec_nanos` divide a 128-bit fixed-point number by 10^9, which CBMC cannot
//! carry. Harnesses that build wire timestamps replace them (`#[kani::stub]`) by their contract:
//!   inner >> 32 == secs * 10^9 + subsec   and   0 <= subsec < 10^9      (precondition: secs fits u64)
//! Engine M proves, from the MIR of the real functions, that they meet exactly this contract (C16,
//! obligation `secs_subsec_contract`).
use crate::time::Time;

pub(crate) fn whole_nanos(t: &Time) -> u128 {
    t.nanos().to_bits() >> 32
}

const NS: u128 = 1_000_000_000;

pub(crate) fn secs_contract(t: &Time) -> u64 {
    let ns = whole_nanos(t);
    // precondition of `to_num::<u64>()` in the real function (debug: panic, release: wrap)
    assert!(ns < (1u128 << 64) * NS, "Time::secs: seconds do not fit in u64");
    let s: u64 = kani::any();
    let n: u32 = kani::any();
    kani::assume((n as u128) < NS);
    kani::assume(ns == (s as u128) * NS + n as u128);
    s
}

pub(crate) fn subsec_contract(t: &Time) -> u32 {
    let ns = whole_nanos(t);
    let s: u128 = kani::any();
    let n: u32 = kani::any();
    kani::assume((n as u128) < NS);
    kani::assume(s < (1u128 << 66));
    kani::assume(ns == s * NS + n as u128);
    n
}

// ------------------------------------------------------------------------------------------------
// Interval -> core::time::Duration without floating point.
//
// `Interval::as_core_duration` is `Duration::from_secs_f64(2f64.powi(n))`. When the interval is read
// back from a `Port` whose packet buffer has been written through a slice, CBMC no longer sees the
// i8 as a constant and bit-blasts pow + from_secs_f64 (measured: 80 M variables, 26 GB for a fully
// concrete `send_sync`). Harnesses replace it by this integer equivalent; `stub_interval_matches_real`
// (below) proves both agree for every log interval in -9..=30 (values whose 2^n s is a whole number of
// nanoseconds below 2^64 ns; PTP profiles use -7..=7).
// ------------------------------------------------------------------------------------------------
pub(crate) fn as_core_duration_int(iv: crate::time::Interval) -> core::time::Duration {
    let n = iv.as_log_2();
    assert!(n >= -9 && n <= 30, "harness precondition: log interval within -9..=30");
    if n >= 0 {
        core::time::Duration::from_secs(1u64 << n)
    } else {
        core::time::Duration::from_nanos(1_000_000_000u64 >> (-n))
    }
}

// @harness stub_interval_matches_real
// @props C12 C10 C11 C15 C08 C03
// @tier quick
// @timeout 300
// @functions Interval::as_core_duration, Interval::as_f64, core::time::Duration::from_secs_f64
// @bounds every log interval n in -9..=30 (40 concrete evaluations of the real floating-point code, decided by CBMC's constant folding + SAT)
// @note discharges the contract of the `as_core_duration_int` stub used by the emitting-handler harnesses
#[kani::proof]
#[kani::unwind(42)]
fn stub_interval_matches_real() {
    let mut n: i8 = -9;
    while n <= 30 {
        let iv = crate::time::Interval::from_log_2(n);
        assert!(iv.as_core_duration() == as_core_duration_int(iv), "integer stub differs from Interval::as_core_duration");
        n += 1;
    }
    kani::cover!(true, "all 40 intervals compared");
}

/// Contract of `core::time::Duration::mul_f64` as used for timer jitter (`interval * factor`):
/// the real function panics for a negative / non-finite / overflowing product; otherwise the result
/// is the product rounded to whole nanoseconds. The stub returns an arbitrary duration within one
/// nanosecond of that product's monotone bounds: for 0 <= f <= k (k in {1,2,...}) the result is
/// between 0 and k * d (+1 ns rounding).
pub(crate) fn mul_f64_contract(d: core::time::Duration, f: f64) -> core::time::Duration {
    assert!(f >= 0.0 && f < 1.0e6, "Duration::mul_f64: factor negative, NaN or absurdly large");
    let r_ns: u64 = kani::any();
    let d_ns = d.as_nanos();
    assert!(d_ns < (1u128 << 40), "harness precondition: timer base interval below 2^40 ns");
    if f <= 1.0 {
        kani::assume((r_ns as u128) <= d_ns + 1);
    } else if f <= 2.0 {
        kani::assume((r_ns as u128) >= d_ns.saturating_sub(1) && (r_ns as u128) <= 2 * d_ns + 1);
    } else if f <= 512.0 {
        kani::assume((r_ns as u128) >= 2 * d_ns.saturating_sub(1) && (r_ns as u128) <= 512 * d_ns + 1);
    } else {
        kani::assume((r_ns as u128) >= 512 * d_ns.saturating_sub(1));
    }
    if f == 0.0 {
        kani::assume(r_ns == 0);
    }
    core::time::Duration::from_nanos(r_ns)
}
