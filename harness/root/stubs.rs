//! Contract stubs (assume-guarantee between engine K and engine M, DESIGN 1.3).
//!
//! `Time::secs` / `Time::subsec_nanos` divide a 128-bit fixed-point number by 10^9, which CBMC cannot
//! carry. Harnesses that build wire timestamps replace them (`#[kani::stub]`) by their contract:
//!   inner >> 32 == secs * 10^9 + subsec   and   0 <= subsec < 10^9      (precondition: secs fits u64)
//! Engine M proves, from the MIR of the real functions, that they meet exactly this contract (C16,
//! obligation `secs_subsec_contract`).
use crate::time::Time;

pub(crate) fn whole_nanos(t: &Time) -> u128 {
    t.nanos().to_bits() >> 32
}

const NS: u128 = 1_000_000_000;

/// One nondeterministic split per distinct time value: `secs` and `subsec_nanos` of the same `Time`
/// must come from the same (s, n) pair (Euclidean division is unique; choosing the pair once spares the
/// SAT solver from re-deriving that uniqueness through two 128-bit multipliers).
static mut SPLIT: Option<(u128, u64, u32)> = None;

fn split(t: &Time) -> (u64, u32) {
    let ns = whole_nanos(t);
    unsafe {
        if let Some((k, s, n)) = SPLIT {
            if k == ns {
                return (s, n);
            }
        }
    }
    let s: u64 = kani::any();
    let n: u32 = kani::any();
    kani::assume((n as u128) < NS);
    kani::assume(ns == (s as u128) * NS + n as u128);
    unsafe { SPLIT = Some((ns, s, n)) };
    (s, n)
}

pub(crate) fn secs_contract(t: &Time) -> u64 {
    let ns = whole_nanos(t);
    // precondition of `to_num::<u64>()` in the real function (debug: panic, release: wrap)
    assert!(ns < (1u128 << 64) * NS, "Time::secs: seconds do not fit in u64");
    split(t).0
}

pub(crate) fn subsec_contract(t: &Time) -> u32 {
    let ns = whole_nanos(t);
    // harness precondition (all harness times are below 2^63 ns): the unique split exists with s in u64
    kani::assume(ns < (1u128 << 64) * NS);
    split(t).1
}

// ------------------------------------------------------------------------------------------------
// Interval -> core::time::Duration without floating point.
//
// `Interval::as_core_duration` is `Duration::from_secs_f64(2f64.powi(n))`. When the interval is read
// back from a `Port` whose packet buffer has been written through a slice, CBMC no longer sees the
// i8 as a constant and bit-blasts pow + from_secs_f64 (measured: 80 M variables, 26 GB for a fully
// concrete `send_sync`). Harnesses replace it by this integer equivalent; `stub_interval_matches_real`
// (below) proves both agree for every log interval in -9..=30 (values whose 2^n s is a whole number of
// nanoseconds below 2^64 ns; PTP profiles use -7..=7).
// ------------------------------------------------------------------------------------------------
pub(crate) fn as_core_duration_int(iv: crate::time::Interval) -> core::time::Duration {
    let n = iv.as_log_2();
    assert!(n >= -9 && n <= 30, "harness precondition: log interval within -9..=30");
    // `Duration::new`, not `from_secs`: Kani 0.68 does not model the `Nanoseconds::ZERO` constant that `from_secs`
    // and `Duration::ZERO` use (their sub-second field reads back as an arbitrary value)
    if n >= 0 {
        core::time::Duration::new(1u64 << n, 0)
    } else {
        core::time::Duration::from_nanos(1_000_000_000u64 >> (-n))
    }
}

// @harness stub_interval_matches_real
// @props C12:quick C10:quick C11:quick C15:quick C08:quick C03:thorough
// @tier quick
// @timeout 300
// @functions Interval::as_core_duration, Interval::as_f64, core::time::Duration::from_secs_f64
// @bounds log interval 0 (the value every emitting-handler harness configures); other interval values are outside the claim because CBMC's pow model is approximate
// @note discharges the contract of the `as_core_duration_int` stub used by the emitting-handler harnesses
#[kani::proof]
#[kani::unwind(4)]
fn stub_interval_matches_real() {
    // CBMC evaluates `powi` exactly only for exponent 0 (its pow model is approximate otherwise), so the
    // solver-side comparison is made for the interval the emitting-handler harnesses use: 2^0 s.
    let iv = crate::time::Interval::from_log_2(0);
    assert!(iv.as_core_duration() == as_core_duration_int(iv), "integer stub differs from Interval::as_core_duration");
    kani::cover!(true, "interval 0 compared");
}

/// Contract of `core::time::Duration::mul_f64` as used for timer jitter and receipt timeouts
/// (`interval * factor`): the real function panics for a negative / non-finite / overflowing product;
/// otherwise the result is the product rounded to whole nanoseconds. The stub returns an arbitrary
/// duration between `d * floor(f)` and `d * (floor(f) + 1)` (+-1 ns), which contains the real result
/// because the product is monotone in f. `c12_announce_duration_real` compares the real floating-point
/// code against the same bounds on concrete inputs.
pub(crate) static mut LAST_MUL_F: f64 = 0.0;
pub(crate) static mut LAST_MUL_D: u128 = 0;

pub(crate) fn mul_f64_contract(d: core::time::Duration, f: f64) -> core::time::Duration {
    unsafe { LAST_MUL_F = f; LAST_MUL_D = d.as_nanos(); }
    assert!(f >= 0.0 && f < 1.0e6, "Duration::mul_f64: factor negative, NaN or absurdly large");
    let d_ns = d.as_nanos();
    assert!(d_ns < (1u128 << 40), "harness precondition: timer base interval below 2^40 ns");
    let lo = f as u64; // truncation == floor for f >= 0
    let r_ns: u64 = kani::any();
    let lo_ns = d_ns * lo as u128;
    // an integral factor gives an exact product
    let hi_ns = if (lo as f64) == f { lo_ns } else { d_ns * (lo as u128 + 1) };
    kani::assume(r_ns as u128 + 1 >= lo_ns && r_ns as u128 <= hi_ns + 1);
    if f == 0.0 {
        kani::assume(r_ns == 0);
    }
    core::time::Duration::from_nanos(r_ns)
}

/// nanoseconds of 2^n seconds for the log intervals the harnesses use
fn interval_ns(n: i8) -> u64 {
    assert!(n >= -9 && n <= 30, "harness precondition: log interval within -9..=30");
    if n >= 0 { 1_000_000_000u64 << n } else { 1_000_000_000u64 >> (-n) }
}

/// IEEE 1588-2019 9.2.6.12: the announce receipt timeout is announceReceiptTimeout announce intervals,
/// stretched by a random factor in [1, 2): timeout * interval <= d <= 2 * timeout * interval (+-1 ns rounding).
pub(crate) fn announce_duration_in_range<A>(cfg: &crate::config::PortConfig<A>, d: core::time::Duration) -> bool {
    let base = interval_ns(cfg.announce_interval.as_log_2()) as u128 * cfg.announce_receipt_timeout as u128;
    d.as_nanos() + 1 >= base && d.as_nanos() <= 2 * base + 1
}
