//! Generators of fully symbolic statime values (only `pub(crate)` fields are touched).
use crate::config::{ClockIdentity, ClockQuality, LeapIndicator, TimePropertiesDS, TimeSource};
use crate::datastructures::common::{ClockAccuracy, PortIdentity, TimeInterval, WireTimestamp};
use crate::datastructures::messages::{AnnounceMessage, Header};
use crate::time::{Duration, Time};
use super::refbmca::RefDs;

pub(crate) fn any_clock_identity() -> ClockIdentity {
    ClockIdentity(kani::any())
}

pub(crate) fn any_port_identity() -> PortIdentity {
    PortIdentity { clock_identity: any_clock_identity(), port_number: kani::any() }
}

pub(crate) fn any_quality() -> ClockQuality {
    ClockQuality {
        clock_class: kani::any(),
        clock_accuracy: ClockAccuracy::from_primitive(kani::any()),
        offset_scaled_log_variance: kani::any(),
    }
}

pub(crate) fn any_time_source() -> TimeSource {
    TimeSource::from_primitive(kani::any())
}

pub(crate) fn any_time_properties() -> TimePropertiesDS {
    let li: u8 = kani::any();
    TimePropertiesDS {
        current_utc_offset: if kani::any() { Some(kani::any()) } else { None },
        leap_indicator: if li == 0 { LeapIndicator::NoLeap } else if li == 1 { LeapIndicator::Leap61 } else { LeapIndicator::Leap59 },
        time_traceable: kani::any(),
        frequency_traceable: kani::any(),
        ptp_timescale: kani::any(),
        time_source: any_time_source(),
    }
}

/// Header with every field symbolic except version (2.minor) and the reserved bits.
pub(crate) fn any_header() -> Header {
    let mut h = Header::new(1);
    h.sdo_id = crate::config::SdoId::try_from(kani::any::<u16>() & 0xfff).unwrap();
    h.domain_number = kani::any();
    h.alternate_master_flag = kani::any();
    h.two_step_flag = kani::any();
    h.unicast_flag = kani::any();
    h.ptp_profile_specific_1 = kani::any();
    h.ptp_profile_specific_2 = kani::any();
    h.leap61 = kani::any();
    h.leap59 = kani::any();
    h.current_utc_offset_valid = kani::any();
    h.ptp_timescale = kani::any();
    h.time_tracable = kani::any();
    h.frequency_tracable = kani::any();
    h.synchronization_uncertain = kani::any();
    h.correction_field = TimeInterval(fixed::types::I48F16::from_bits(kani::any()));
    h.source_port_identity = any_port_identity();
    h.sequence_id = kani::any();
    h.log_message_interval = kani::any();
    h
}

/// Header whose domain/sdoId are the defaults (0/0) - what passes the port's domain gate of a
/// default instance - everything else symbolic.
pub(crate) fn any_header_dom0() -> Header {
    let mut h = any_header();
    h.sdo_id = Default::default();
    h.domain_number = 0;
    h
}

pub(crate) fn any_wire_timestamp() -> WireTimestamp {
    let seconds: u64 = kani::any();
    kani::assume(seconds < (1u64 << 48));
    WireTimestamp { seconds, nanos: kani::any() }
}

pub(crate) fn any_announce_with_header(header: Header) -> AnnounceMessage {
    AnnounceMessage {
        header,
        origin_timestamp: any_wire_timestamp(),
        current_utc_offset: kani::any(),
        grandmaster_priority_1: kani::any(),
        grandmaster_clock_quality: any_quality(),
        grandmaster_priority_2: kani::any(),
        grandmaster_identity: any_clock_identity(),
        steps_removed: kani::any(),
        time_source: any_time_source(),
    }
}

pub(crate) fn any_announce() -> AnnounceMessage {
    any_announce_with_header(any_header())
}

/// Time with arbitrary nanoseconds in [0, 2^63) and arbitrary 32-bit sub-nanosecond fraction.
pub(crate) fn any_time() -> Time {
    let ns: u64 = kani::any();
    kani::assume(ns < (1u64 << 63));
    Time::from_nanos_subnanos(ns, kani::any())
}

/// Duration with arbitrary bits, |d| < 2^(bits-1) in units of 2^-32 ns.
pub(crate) fn any_duration_bits(bits: u32) -> Duration {
    let b: i128 = kani::any();
    let lim: i128 = 1i128 << (bits - 1);
    kani::assume(b > -lim && b < lim);
    Duration::from_fixed_nanos(fixed::types::I96F32::from_bits(b))
}

pub(crate) fn ref_of_announce(m: &AnnounceMessage, receiver: &PortIdentity) -> RefDs {
    RefDs {
        p1: m.grandmaster_priority_1,
        class: m.grandmaster_clock_quality.clock_class,
        acc: m.grandmaster_clock_quality.clock_accuracy.to_primitive(),
        var: m.grandmaster_clock_quality.offset_scaled_log_variance,
        p2: m.grandmaster_priority_2,
        gm: m.grandmaster_identity.0,
        steps: m.steps_removed,
        sender: m.header.source_port_identity.clock_identity.0,
        recv_clock: receiver.clock_identity.0,
        recv_port: receiver.port_number,
    }
}
