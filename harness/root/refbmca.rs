//! Reference data set comparison (IEEE 1588-2019 9.3.4, Figures 34 and 35) and state decision
//! (9.3.3, Figure 33) over plain integers. Independent of statime's `bmc` module.

/// Plain-value view of one data set (Table 29: the values compared by the algorithm).
#[derive(Clone, Copy)]
pub(crate) struct RefDs {
    pub p1: u8,
    pub class: u8,
    pub acc: u8, // clockAccuracy octet
    pub var: u16,
    pub p2: u8,
    pub gm: [u8; 8],
    pub steps: u16,
    pub sender: [u8; 8],   // clockIdentity of the sender (sourcePortIdentity.clockIdentity)
    pub recv_clock: [u8; 8], // clockIdentity of the receiving port
    pub recv_port: u16,    // portNumber of the receiving port
}

pub(crate) const A_BETTER: u8 = 0;
pub(crate) const A_BETTER_TOPO: u8 = 1;
pub(crate) const ERROR_1: u8 = 2;
pub(crate) const ERROR_2: u8 = 3;
pub(crate) const B_BETTER_TOPO: u8 = 4;
pub(crate) const B_BETTER: u8 = 5;

/// lexicographic comparison of identities as big-endian numbers: -1, 0, 1
pub(crate) fn id_cmp(a: &[u8; 8], b: &[u8; 8]) -> i8 {
    let x = u64::from_be_bytes(*a);
    let y = u64::from_be_bytes(*b);
    if x < y { -1 } else if x > y { 1 } else { 0 }
}

/// Figure 34 + Figure 35.
pub(crate) fn ref_compare(a: &RefDs, b: &RefDs) -> u8 {
    if id_cmp(&a.gm, &b.gm) != 0 {
        // Figure 34: lower value wins at the first attribute that differs
        if a.p1 != b.p1 { return if a.p1 < b.p1 { A_BETTER } else { B_BETTER }; }
        if a.class != b.class { return if a.class < b.class { A_BETTER } else { B_BETTER }; }
        if a.acc != b.acc { return if a.acc < b.acc { A_BETTER } else { B_BETTER }; }
        if a.var != b.var { return if a.var < b.var { A_BETTER } else { B_BETTER }; }
        if a.p2 != b.p2 { return if a.p2 < b.p2 { A_BETTER } else { B_BETTER }; }
        return if id_cmp(&a.gm, &b.gm) < 0 { A_BETTER } else { B_BETTER };
    }
    // Figure 35
    let sa = a.steps as u32;
    let sb = b.steps as u32;
    if sa > sb + 1 { return B_BETTER; }
    if sa + 1 < sb { return A_BETTER; }
    if sa > sb {
        // A is one step further away: receiver of A vs sender of A
        let c = id_cmp(&a.recv_clock, &a.sender);
        return if c < 0 { B_BETTER } else if c > 0 { B_BETTER_TOPO } else { ERROR_1 };
    }
    if sa < sb {
        let c = id_cmp(&b.recv_clock, &b.sender);
        return if c < 0 { A_BETTER } else if c > 0 { A_BETTER_TOPO } else { ERROR_1 };
    }
    let c = id_cmp(&a.sender, &b.sender);
    if c > 0 { return B_BETTER_TOPO; }
    if c < 0 { return A_BETTER_TOPO; }
    if a.recv_port > b.recv_port { return B_BETTER_TOPO; }
    if a.recv_port < b.recv_port { return A_BETTER_TOPO; }
    ERROR_2
}

/// -1: a worse, 0: same, 1: a better  (by quality or by topology)
pub(crate) fn ref_order(a: &RefDs, b: &RefDs) -> i8 {
    match ref_compare(a, b) {
        A_BETTER | A_BETTER_TOPO => 1,
        B_BETTER | B_BETTER_TOPO => -1,
        _ => 0,
    }
}

// ---- state decision, Figure 33 ------------------------------------------------------------

pub(crate) const DEC_NONE: u8 = 0; // stay (LISTENING with empty Erbest)
pub(crate) const DEC_M1: u8 = 1;
pub(crate) const DEC_M2: u8 = 2;
pub(crate) const DEC_M3: u8 = 3;
pub(crate) const DEC_P1: u8 = 4;
pub(crate) const DEC_P2: u8 = 5;
pub(crate) const DEC_S1: u8 = 6;

/// `d0`: own data set (steps 0, sender = receiver = own clock, port 0);
/// `ebest`/`erbest`: Some(data set) or None; `erbest_is_ebest`: Ebest was received on this port
/// (and is this port's Erbest); `listening`: the port is in LISTENING.
pub(crate) fn ref_decision(
    d0: &RefDs,
    ebest: Option<&RefDs>,
    erbest: Option<&RefDs>,
    erbest_is_ebest: bool,
    listening: bool,
) -> u8 {
    if erbest.is_none() && listening {
        return DEC_NONE;
    }
    if d0.class >= 1 && d0.class <= 127 {
        return match erbest {
            None => DEC_M1,
            Some(e) => if ref_order(d0, e) >= 0 { DEC_M1 } else { DEC_P1 },
        };
    }
    match ebest {
        None => DEC_M2,
        Some(eb) => {
            if ref_order(d0, eb) >= 0 {
                DEC_M2
            } else if erbest_is_ebest {
                DEC_S1
            } else {
                match erbest {
                    None => DEC_M3,
                    Some(er) => if ref_compare(eb, er) == A_BETTER_TOPO { DEC_P2 } else { DEC_M3 },
                }
            }
        }
    }
}
