//! C04: wire codec against the reference codec (child of `datastructures::messages`).
#![allow(dead_code, unused_imports)]
use super::*;
use crate::datastructures::common::{ClockIdentity, PortIdentity, WireTimestamp};
use crate::verif_root::refcodec::*;

/// TLVs that fit in the symbolic suffix of S octets
const S: usize = 12;
const MAX_TLVS: usize = S / 4;

fn pid_eq(p: &PortIdentity, b: &[u8], o: usize) -> bool {
    p.clock_identity.0 == id8(b, o) && p.port_number == be16(b, o + 8)
}

fn ts_eq(t: &WireTimestamp, b: &[u8], o: usize) -> bool {
    t.seconds == be48(b, o) && t.nanos == be32(b, o + 6)
}

fn header_matches(h: &Header, r: &RefHeader) -> bool {
    u16::from(h.sdo_id) == ((r.major_sdo_id as u16) << 8 | r.minor_sdo_id as u16)
        && Some(h.version) == PtpVersion::new(r.version, r.minor_version)
        && h.domain_number == r.domain
        && h.alternate_master_flag == (r.flags0 & F0_ALTERNATE_MASTER != 0)
        && h.two_step_flag == (r.flags0 & F0_TWO_STEP != 0)
        && h.unicast_flag == (r.flags0 & F0_UNICAST != 0)
        && h.ptp_profile_specific_1 == (r.flags0 & F0_PROFILE_1 != 0)
        && h.ptp_profile_specific_2 == (r.flags0 & F0_PROFILE_2 != 0)
        && h.leap61 == (r.flags1 & F1_LEAP61 != 0)
        && h.leap59 == (r.flags1 & F1_LEAP59 != 0)
        && h.current_utc_offset_valid == (r.flags1 & F1_UTC_VALID != 0)
        && h.ptp_timescale == (r.flags1 & F1_PTP_TIMESCALE != 0)
        && h.time_tracable == (r.flags1 & F1_TIME_TRACEABLE != 0)
        && h.frequency_tracable == (r.flags1 & F1_FREQ_TRACEABLE != 0)
        && h.synchronization_uncertain == (r.flags1 & F1_SYNC_UNCERTAIN != 0)
        && h.correction_field.0.to_bits() == r.correction
        && h.source_port_identity.clock_identity.0 == r.source_clock
        && h.source_port_identity.port_number == r.source_port
        && h.sequence_id == r.sequence_id
        && h.log_message_interval == r.log_interval
}

/// every defined body field sits at the offset / width / byte order of Clause 13
fn body_matches(t: u8, m: &Message<'_>, b: &[u8]) -> bool {
    match &m.body {
        MessageBody::Sync(x) => t == T_SYNC && ts_eq(&x.origin_timestamp, b, O_TS),
        MessageBody::DelayReq(x) => t == T_DELAY_REQ && ts_eq(&x.origin_timestamp, b, O_TS),
        MessageBody::FollowUp(x) => t == T_FOLLOW_UP && ts_eq(&x.precise_origin_timestamp, b, O_TS),
        MessageBody::PDelayReq(x) => t == T_PDELAY_REQ && ts_eq(&x.origin_timestamp, b, O_TS),
        MessageBody::DelayResp(x) => t == T_DELAY_RESP && ts_eq(&x.receive_timestamp, b, O_TS) && pid_eq(&x.requesting_port_identity, b, O_PORT_ID),
        MessageBody::PDelayResp(x) => t == T_PDELAY_RESP && ts_eq(&x.request_receive_timestamp, b, O_TS) && pid_eq(&x.requesting_port_identity, b, O_PORT_ID),
        MessageBody::PDelayRespFollowUp(x) => t == T_PDELAY_RESP_FOLLOW_UP && ts_eq(&x.response_origin_timestamp, b, O_TS) && pid_eq(&x.requesting_port_identity, b, O_PORT_ID),
        MessageBody::Announce(x) => {
            let acc = b[O_ANN_ACC];
            t == T_ANNOUNCE
                && x.header == m.header
                && ts_eq(&x.origin_timestamp, b, O_TS)
                && x.current_utc_offset == be16(b, O_ANN_UTC) as i16
                && x.grandmaster_priority_1 == b[O_ANN_P1]
                && x.grandmaster_clock_quality.clock_class == b[O_ANN_CLASS]
                && (if acc_reserved(acc) { acc_reserved(x.grandmaster_clock_quality.clock_accuracy.to_primitive()) }
                    else { x.grandmaster_clock_quality.clock_accuracy.to_primitive() == acc })
                && x.grandmaster_clock_quality.offset_scaled_log_variance == be16(b, O_ANN_VAR)
                && x.grandmaster_priority_2 == b[O_ANN_P2]
                && x.grandmaster_identity.0 == id8(b, O_ANN_GM)
                && x.steps_removed == be16(b, O_ANN_STEPS)
                && x.time_source.to_primitive() == b[O_ANN_SOURCE]
        }
        MessageBody::Signaling(x) => t == T_SIGNALING && pid_eq(&x.target_port_identity, b, O_TARGET),
        MessageBody::Management(x) => {
            let action = b[O_MGMT_ACTION] & 0x0f;
            t == T_MANAGEMENT
                && pid_eq(&x.target_port_identity, b, O_TARGET)
                && x.starting_boundary_hops == b[O_MGMT_START_HOPS]
                && x.boundary_hops == b[O_MGMT_HOPS]
                && x.action.to_primitive() == (if action > 5 { 5 } else { action })
        }
    }
}

/// output agrees with input on every defined bit of the first `n` octets (header + body; the TLV suffix
/// must be identical), controlField carries its Table 42 value; nested loops keep every loop <= 8 iterations
fn reencoding_agrees<const N: usize>(t: u8, inp: &[u8; N], out: &[u8; N], n: usize, body: usize) -> bool {
    let fixed = HEADER_LEN + body;
    let mut ok = true;
    let mut i = 0;
    while i < (N + 7) / 8 {
        let mut j = 0;
        while j < 8 {
            let k = i * 8 + j;
            if k < N && k < n {
                let mask = if k < fixed { defined_mask(t, k) } else { 0xff };
                let mut a = inp[k] & mask;
                let mut o = out[k] & mask;
                if t == T_ANNOUNCE && k == O_ANN_ACC && acc_reserved(inp[k]) {
                    // reserved accuracy values are not preserved, but must stay in the reserved class
                    a = 0;
                    o = if acc_reserved(out[k]) { 0 } else { 1 };
                }
                if t == T_MANAGEMENT && k == O_MGMT_ACTION && (inp[k] & 0x0f) > 5 {
                    a = 0;
                    o = if (out[k] & 0x0f) >= 5 { 0 } else { 1 };
                }
                if a != o {
                    ok = false;
                }
            }
            j += 1;
        }
        i += 1;
    }
    ok && out[32] == ref_control(t)
}

fn check_decode<const N: usize>(t: u8) {
    let mut buf: [u8; N] = kani::any();
    buf[0] = (buf[0] & 0xf0) | t;
    let len: usize = kani::any();
    kani::assume(len <= N);
    let b = &buf[..len];
    let rf = ref_frame(b, MAX_TLVS);
    match Message::deserialize(b) {
        Err(_) => {
            assert!(!rf.ok || rf.last_tlv_zero, "C04: a frame that is well formed per Clause 13 was rejected");
            kani::cover!(len >= HEADER_LEN, "rejected frame with a full header");
            kani::cover!(rf.ok && rf.last_tlv_zero, "D7 class: zero-length last TLV rejected");
        }
        Ok(m) => {
            assert!(rf.ok, "C04: a malformed frame was accepted");
            assert!(m.wire_size() == rf.m, "C04: decoded message does not have the declared length");
            assert!(header_matches(&m.header, &ref_header(b)), "C04: header field decoded from the wrong offset/width/byte order");
            assert!(body_matches(t, &m, b), "C04: body field decoded from the wrong offset/width/byte order");
            // TLV suffix: exactly the octets between body and messageLength, iterated as the reference walks them
            let suffix = &b[HEADER_LEN + rf.body..rf.m];
            assert!(m.suffix.wire_size() == suffix.len());
            let mut it = m.suffix.tlv();
            let mut k = 0;
            while k < MAX_TLVS {
                match (it.next(), ref_tlv_at(suffix, k)) {
                    (Some(tlv), Some((ty, off, l))) if k < rf.tlvs => {
                        assert!(tlv.tlv_type.to_primitive() == ty && tlv.value.len() == l);
                        if l > 0 {
                            assert!(tlv.value[0] == suffix[off] && tlv.value[l - 1] == suffix[off + l - 1]);
                        }
                    }
                    (None, _) => assert!(k >= rf.tlvs, "C04: TLV iterator ended early"),
                    (Some(_), _) => assert!(false, "C04: TLV iterator yields more TLVs than the suffix contains"),
                }
                k += 1;
            }
            kani::cover!(rf.tlvs == 0 && rf.m < len, "accepted, no TLV, padded buffer");
            kani::cover!(rf.tlvs == 2, "accepted with two TLVs");
            kani::cover!(rf.tlvs == 1 && rf.m == len, "accepted with one TLV filling the buffer");
        }
    }
}

fn check_roundtrip<const N: usize>(t: u8) {
    let mut buf: [u8; N] = kani::any();
    buf[0] = (buf[0] & 0xf0) | t;
    let len: usize = kani::any();
    kani::assume(len <= N);
    let b = &buf[..len];
    if let Ok(m) = Message::deserialize(b) {
        let rf = ref_frame(b, MAX_TLVS);
        kani::assume(rf.ok); // acceptance itself is decided by the *_decode harness of the same type
        // re-encode into a dirty buffer (the port reuses one packet buffer)
        let mut out: [u8; N] = kani::any();
        let n = m.serialize(&mut out).unwrap();
        assert!(n == rf.m, "C04: re-encoded length differs from the declared length");
        assert!(be16(&out, 2) as usize == n);
        assert!(reencoding_agrees::<N>(t, &buf, &out, n, rf.body), "C04: re-encoding changed a defined field");
        match Message::deserialize(&out[..n]) {
            Ok(m2) => assert!(m2 == m, "C04: decode(encode(m)) != m"),
            Err(_) => assert!(false, "C04: re-encoded frame does not decode"),
        }
        kani::cover!(rf.tlvs == 0 && rf.m < len, "round trip, no TLV, padded buffer");
        kani::cover!(rf.tlvs == 2, "round trip with two TLVs");
    }
}

// @harness c04_sync_decode
// @props C04:quick C03:quick
// @tier quick
// @timeout 900
// @functions Message::deserialize, Header::deserialize_header, MessageBody::deserialize, SyncMessage::deserialize_content, TlvSet::deserialize, TlvSetIterator::next, Message::serialize, Header::serialize_header, Message::wire_size, PartialEq for Message
// @bounds frame = 34 + 10 body + 12 suffix octets, all symbolic except the type nibble; buffer length symbolic 0..=56; messageLength symbolic (every relation to 34, 44 and the buffer length); up to 3 TLVs of any type / even or odd length
// @assume well-formedness oracle = harness/root/refcodec.rs (Clause 13 tables); a zero-length TLV in last position is tolerated as rejected (known codec quirk D7, does not contradict C04)
#[kani::proof]
#[kani::unwind(14)]
fn c04_sync_decode() { check_decode::<56>(T_SYNC) }

// @harness c04_sync_roundtrip
// @props C04:quick
// @tier quick
// @timeout 900
// @functions Message::deserialize, Header::deserialize_header, MessageBody::deserialize, SyncMessage::deserialize_content, TlvSet::deserialize, TlvSetIterator::next, Message::serialize, Header::serialize_header, Message::wire_size, PartialEq for Message
// @bounds frame = 34 + 10 body + 12 suffix octets, all symbolic except the type nibble; buffer length symbolic 0..=56; messageLength symbolic (every relation to 34, 44 and the buffer length); up to 3 TLVs of any type / even or odd length
// @assume well-formedness oracle = harness/root/refcodec.rs (Clause 13 tables); a zero-length TLV in last position is tolerated as rejected (known codec quirk D7, does not contradict C04)
#[kani::proof]
#[kani::unwind(14)]
fn c04_sync_roundtrip() { check_roundtrip::<56>(T_SYNC) }

// @harness c04_delay_req_decode
// @props C04:quick
// @tier quick
// @timeout 900
// @functions Message::deserialize, DelayReqMessage::deserialize_content, Message::serialize
// @bounds as c04_sync (56 octets)
#[kani::proof]
#[kani::unwind(14)]
fn c04_delay_req_decode() { check_decode::<56>(T_DELAY_REQ) }

// @harness c04_delay_req_roundtrip
// @props C04:thorough
// @tier quick
// @timeout 900
// @functions Message::deserialize, DelayReqMessage::deserialize_content, Message::serialize
// @bounds as c04_sync (56 octets)
#[kani::proof]
#[kani::unwind(14)]
fn c04_delay_req_roundtrip() { check_roundtrip::<56>(T_DELAY_REQ) }

// @harness c04_follow_up_decode
// @props C04:quick
// @tier quick
// @timeout 900
// @functions Message::deserialize, FollowUpMessage::deserialize_content, Message::serialize
// @bounds as c04_sync (56 octets)
#[kani::proof]
#[kani::unwind(14)]
fn c04_follow_up_decode() { check_decode::<56>(T_FOLLOW_UP) }

// @harness c04_follow_up_roundtrip
// @props C04:thorough
// @tier quick
// @timeout 900
// @functions Message::deserialize, FollowUpMessage::deserialize_content, Message::serialize
// @bounds as c04_sync (56 octets)
#[kani::proof]
#[kani::unwind(14)]
fn c04_follow_up_roundtrip() { check_roundtrip::<56>(T_FOLLOW_UP) }

// @harness c04_delay_resp_decode
// @props C04:quick
// @tier quick
// @timeout 900
// @functions Message::deserialize, DelayRespMessage::deserialize_content, Message::serialize
// @bounds 34 + 20 + 12 = 66 octets, otherwise as c04_sync
#[kani::proof]
#[kani::unwind(14)]
fn c04_delay_resp_decode() { check_decode::<66>(T_DELAY_RESP) }

// @harness c04_delay_resp_roundtrip
// @props C04:thorough
// @tier quick
// @timeout 900
// @functions Message::deserialize, DelayRespMessage::deserialize_content, Message::serialize
// @bounds 34 + 20 + 12 = 66 octets, otherwise as c04_sync
#[kani::proof]
#[kani::unwind(14)]
fn c04_delay_resp_roundtrip() { check_roundtrip::<66>(T_DELAY_RESP) }

// @harness c04_pdelay_req_decode
// @props C04:quick
// @tier quick
// @timeout 900
// @functions Message::deserialize, PDelayReqMessage::deserialize_content, Message::serialize
// @bounds 66 octets, otherwise as c04_sync
#[kani::proof]
#[kani::unwind(14)]
fn c04_pdelay_req_decode() { check_decode::<66>(T_PDELAY_REQ) }

// @harness c04_pdelay_req_roundtrip
// @props C04:thorough
// @tier quick
// @timeout 900
// @functions Message::deserialize, PDelayReqMessage::deserialize_content, Message::serialize
// @bounds 66 octets, otherwise as c04_sync
#[kani::proof]
#[kani::unwind(14)]
fn c04_pdelay_req_roundtrip() { check_roundtrip::<66>(T_PDELAY_REQ) }

// @harness c04_pdelay_resp_decode
// @props C04:quick
// @tier quick
// @timeout 900
// @functions Message::deserialize, PDelayRespMessage::deserialize_content, Message::serialize
// @bounds 66 octets, otherwise as c04_sync
#[kani::proof]
#[kani::unwind(14)]
fn c04_pdelay_resp_decode() { check_decode::<66>(T_PDELAY_RESP) }

// @harness c04_pdelay_resp_roundtrip
// @props C04:thorough
// @tier quick
// @timeout 900
// @functions Message::deserialize, PDelayRespMessage::deserialize_content, Message::serialize
// @bounds 66 octets, otherwise as c04_sync
#[kani::proof]
#[kani::unwind(14)]
fn c04_pdelay_resp_roundtrip() { check_roundtrip::<66>(T_PDELAY_RESP) }

// @harness c04_pdelay_resp_follow_up_decode
// @props C04:quick
// @tier quick
// @timeout 900
// @functions Message::deserialize, PDelayRespFollowUpMessage::deserialize_content, Message::serialize
// @bounds 66 octets, otherwise as c04_sync
#[kani::proof]
#[kani::unwind(14)]
fn c04_pdelay_resp_follow_up_decode() { check_decode::<66>(T_PDELAY_RESP_FOLLOW_UP) }

// @harness c04_pdelay_resp_follow_up_roundtrip
// @props C04:thorough
// @tier quick
// @timeout 900
// @functions Message::deserialize, PDelayRespFollowUpMessage::deserialize_content, Message::serialize
// @bounds 66 octets, otherwise as c04_sync
#[kani::proof]
#[kani::unwind(14)]
fn c04_pdelay_resp_follow_up_roundtrip() { check_roundtrip::<66>(T_PDELAY_RESP_FOLLOW_UP) }

// @harness c04_announce_decode
// @props C04:quick C03:thorough
// @tier quick
// @timeout 1200
// @functions Message::deserialize, AnnounceMessage::deserialize_content, ClockQuality::deserialize, ClockAccuracy::from_primitive, TimeSource::from_primitive, Message::serialize, AnnounceMessage::serialize_content
// @bounds 34 + 30 + 12 = 76 octets, otherwise as c04_sync
#[kani::proof]
#[kani::unwind(14)]
fn c04_announce_decode() { check_decode::<76>(T_ANNOUNCE) }

// @harness c04_announce_roundtrip
// @props C04:quick
// @tier quick
// @timeout 1200
// @functions Message::deserialize, AnnounceMessage::deserialize_content, ClockQuality::deserialize, ClockAccuracy::from_primitive, TimeSource::from_primitive, Message::serialize, AnnounceMessage::serialize_content
// @bounds 34 + 30 + 12 = 76 octets, otherwise as c04_sync
#[kani::proof]
#[kani::unwind(14)]
fn c04_announce_roundtrip() { check_roundtrip::<76>(T_ANNOUNCE) }

// @harness c04_signaling_decode
// @props C04:quick
// @tier quick
// @timeout 900
// @functions Message::deserialize, SignalingMessage::deserialize_content, Message::serialize
// @bounds 56 octets, otherwise as c04_sync
#[kani::proof]
#[kani::unwind(14)]
fn c04_signaling_decode() { check_decode::<56>(T_SIGNALING) }

// @harness c04_signaling_roundtrip
// @props C04:thorough
// @tier quick
// @timeout 900
// @functions Message::deserialize, SignalingMessage::deserialize_content, Message::serialize
// @bounds 56 octets, otherwise as c04_sync
#[kani::proof]
#[kani::unwind(14)]
fn c04_signaling_roundtrip() { check_roundtrip::<56>(T_SIGNALING) }

// @harness c04_management_decode
// @props C04:quick
// @tier quick
// @timeout 900
// @functions Message::deserialize, ManagementMessage::deserialize_content, ManagementAction::from_primitive, Message::serialize, ManagementMessage::serialize_content
// @bounds 34 + 14 + 12 = 60 octets, otherwise as c04_sync
#[kani::proof]
#[kani::unwind(14)]
fn c04_management_decode() { check_decode::<60>(T_MANAGEMENT) }

// @harness c04_management_roundtrip
// @props C04:thorough
// @tier quick
// @timeout 900
// @functions Message::deserialize, ManagementMessage::deserialize_content, ManagementAction::from_primitive, Message::serialize, ManagementMessage::serialize_content
// @bounds 34 + 14 + 12 = 60 octets, otherwise as c04_sync
#[kani::proof]
#[kani::unwind(14)]
fn c04_management_roundtrip() { check_roundtrip::<60>(T_MANAGEMENT) }

// @harness c04_unknown_types_rejected
// @props C04:quick
// @tier quick
// @timeout 600
// @functions Message::deserialize, Header::deserialize_header, MessageType::try_from
// @bounds 48 symbolic octets, symbolic length, type nibble restricted to the six values Table 36 reserves (4,5,6,7,14,15)
#[kani::proof]
#[kani::unwind(14)]
fn c04_unknown_types_rejected() {
    let buf: [u8; 48] = kani::any();
    let t = buf[0] & 0x0f;
    kani::assume(ref_body_len(t).is_none());
    let len: usize = kani::any();
    kani::assume(len <= 48);
    assert!(Message::deserialize(&buf[..len]).is_err(), "C04: reserved message type accepted");
    kani::cover!(len == 48 && t == 0xf, "full-length frame of reserved type");
}

// ================================================================================================
// Recording replacement for `Message::serialize` (used via #[kani::stub] by the emitting-handler
// harnesses in harness/port).
//
// Why: CBMC cannot carry byte-level writes into `Port::packet_buffer` once anything reads the bytes
// back (the buffer is a field of a struct with enum / union fields; measured: a fully concrete
// `send_sync` + one byte read > 43 GB). So the handler harnesses decide "which typed Message the
// handler hands to `serialize`, with which buffer", and the `c04_encode_*` harnesses below decide
// "`serialize` turns any typed Message into the Clause 13 bytes" on a local buffer. `serialize` is a
// pure function of (message, buffer length), so the two compose.
// ================================================================================================
pub(crate) static mut SER_COUNT: u32 = 0;
pub(crate) static mut SER_HEADER: Option<Header> = None;
pub(crate) static mut SER_BODY: Option<MessageBody> = None;
pub(crate) static mut SER_SUFFIX_LEN: usize = 0;
pub(crate) static mut SER_BUF_ADDR: usize = 0;
pub(crate) static mut SER_BUF_LEN: usize = 0;
/// the first two TLVs of the suffix: (type, value length, first 24 value octets), and the TLV count (<= 3 counted)
pub(crate) static mut SER_TLV: [(u16, usize, [u8; 24]); 2] = [(0, 0, [0; 24]); 2];
pub(crate) static mut SER_TLV_COUNT: usize = 0;

pub(crate) fn serialize_rec<'a>(m: &Message<'a>, buffer: &mut [u8]) -> Result<usize, WireFormatError> where 'a: 'a {
    let n = m.wire_size();
    // the real function panics (split_at_mut / unwrap) exactly when the buffer is shorter than the message
    assert!(buffer.len() >= n, "Message::serialize: buffer shorter than the message");
    unsafe {
        SER_COUNT += 1;
        SER_HEADER = Some(m.header);
        SER_BODY = Some(m.body.clone());
        SER_SUFFIX_LEN = m.suffix.wire_size();
        SER_BUF_ADDR = buffer.as_ptr() as usize;
        SER_BUF_LEN = buffer.len();
        let mut it = m.suffix.tlv();
        let mut k = 0;
        SER_TLV_COUNT = 0;
        while k < 3 {
            if let Some(t) = it.next() {
                SER_TLV_COUNT += 1;
                if k < 2 {
                    let l = t.value.len();
                    SER_TLV[k].0 = t.tlv_type.to_primitive();
                    SER_TLV[k].1 = l;
                    let mut i = 0;
                    while i < 3 {
                        let mut j = 0;
                        while j < 8 {
                            let x = i * 8 + j;
                            if x < l { SER_TLV[k].2[x] = t.value[x]; }
                            j += 1;
                        }
                        i += 1;
                    }
                }
            }
            k += 1;
        }
    }
    Ok(n)
}

/// as `serialize_rec` without walking the suffix: for harnesses that also replace `TlvSetBuilder::add` by its
/// recording stub (harness/tlv), where the suffix octets are never written and only the suffix length is meaningful
pub(crate) fn serialize_rec_lite<'a>(m: &Message<'a>, buffer: &mut [u8]) -> Result<usize, WireFormatError> where 'a: 'a {
    let n = m.wire_size();
    assert!(buffer.len() >= n, "Message::serialize: buffer shorter than the message");
    unsafe {
        SER_COUNT += 1;
        SER_HEADER = Some(m.header);
        SER_BODY = Some(m.body.clone());
        SER_SUFFIX_LEN = m.suffix.wire_size();
        SER_BUF_ADDR = buffer.as_ptr() as usize;
        SER_BUF_LEN = buffer.len();
        SER_TLV_COUNT = 0;
    }
    Ok(n)
}

pub(crate) fn ser_count() -> u32 { unsafe { SER_COUNT } }
pub(crate) fn ser_header() -> Option<Header> { unsafe { SER_HEADER } }
pub(crate) fn ser_body() -> Option<MessageBody> { unsafe { SER_BODY.clone() } }
pub(crate) fn ser_suffix_len() -> usize { unsafe { SER_SUFFIX_LEN } }
pub(crate) fn ser_buf() -> (usize, usize) { unsafe { (SER_BUF_ADDR, SER_BUF_LEN) } }
pub(crate) fn ser_tlv(k: usize) -> (u16, usize, [u8; 24]) { unsafe { SER_TLV[k] } }
pub(crate) fn ser_tlv_count() -> usize { unsafe { SER_TLV_COUNT } }

// ================================================================================================
// Encode direction: any typed message -> Clause 13 bytes (reference reads them back).
// ================================================================================================
use crate::verif_root::gen::*;

fn any_body(t: u8, header: Header) -> MessageBody {
    match t {
        T_SYNC => MessageBody::Sync(SyncMessage { origin_timestamp: any_wire_timestamp() }),
        T_DELAY_REQ => MessageBody::DelayReq(DelayReqMessage { origin_timestamp: any_wire_timestamp() }),
        T_FOLLOW_UP => MessageBody::FollowUp(FollowUpMessage { precise_origin_timestamp: any_wire_timestamp() }),
        T_PDELAY_REQ => MessageBody::PDelayReq(PDelayReqMessage { origin_timestamp: any_wire_timestamp() }),
        T_DELAY_RESP => MessageBody::DelayResp(DelayRespMessage { receive_timestamp: any_wire_timestamp(), requesting_port_identity: any_port_identity() }),
        T_PDELAY_RESP => MessageBody::PDelayResp(PDelayRespMessage { request_receive_timestamp: any_wire_timestamp(), requesting_port_identity: any_port_identity() }),
        T_PDELAY_RESP_FOLLOW_UP => MessageBody::PDelayRespFollowUp(PDelayRespFollowUpMessage { response_origin_timestamp: any_wire_timestamp(), requesting_port_identity: any_port_identity() }),
        _ => MessageBody::Announce(any_announce_with_header(header)),
    }
}

fn check_encode<const N: usize>(t: u8) {
    let mut header = any_header();
    header.version = PtpVersion::new(2, kani::any::<u8>() & 0x0f).unwrap();
    let m = Message { header, body: any_body(t, header), suffix: TlvSet::default() };
    let mut out: [u8; N] = kani::any(); // dirty buffer
    let n = m.serialize(&mut out).unwrap();
    let blen = ref_body_len(t).unwrap();
    assert!(n == HEADER_LEN + blen && n == m.wire_size(), "C04: encoded length");
    let r = ref_header(&out);
    assert!(r.message_type == t && r.message_length as usize == n && r.control == ref_control(t), "C04: type / length / controlField");
    assert!(header_matches(&m.header, &r), "C04: header field encoded at the wrong offset/width/byte order");
    assert!(out[6] & !F0_DEFINED == 0 && out[7] & !F1_DEFINED == 0 && out[16] == 0 && out[17] == 0 && out[18] == 0 && out[19] == 0,
        "C04: reserved header bits / messageTypeSpecific must be written as zero");
    assert!(body_matches(t, &m, &out), "C04: body field encoded at the wrong offset/width/byte order");
    // every octet of the frame is determined by the message (none of the dirty buffer leaks into defined fields):
    // encoding the same message over a different dirty buffer gives the same octets wherever Clause 13 defines them
    let mut out2: [u8; N] = kani::any();
    let _ = m.serialize(&mut out2).unwrap();
    assert!(reencoding_agrees::<N>(t, &out, &out2, n, blen), "C04: stale buffer contents leak into the frame");
    kani::cover!(true, "encoded");
}

// @harness c04_encode_sync
// @props C04:quick C10:quick
// @tier quick
// @timeout 600
// @functions Message::serialize, Header::serialize_header, SyncMessage::serialize_content, WireTimestamp::serialize, TimeInterval::serialize, PortIdentity::serialize
// @bounds arbitrary typed Sync (every header field, flags, correction, identity, sequence id, log interval, minor version; origin timestamp seconds < 2^48) into a dirty 44-octet buffer
#[kani::proof]
#[kani::unwind(14)]
fn c04_encode_sync() { check_encode::<44>(T_SYNC) }

// @harness c04_encode_delay_req
// @props C04:quick C10:quick
// @tier quick
// @timeout 600
// @functions Message::serialize, DelayReqMessage::serialize_content
// @bounds as c04_encode_sync
#[kani::proof]
#[kani::unwind(14)]
fn c04_encode_delay_req() { check_encode::<44>(T_DELAY_REQ) }

// @harness c04_encode_follow_up
// @props C04:quick C10:quick
// @tier quick
// @timeout 600
// @functions Message::serialize, FollowUpMessage::serialize_content
// @bounds as c04_encode_sync
#[kani::proof]
#[kani::unwind(14)]
fn c04_encode_follow_up() { check_encode::<44>(T_FOLLOW_UP) }

// @harness c04_encode_delay_resp
// @props C04:quick C10:quick
// @tier quick
// @timeout 600
// @functions Message::serialize, DelayRespMessage::serialize_content
// @bounds arbitrary typed Delay_Resp into a dirty 54-octet buffer
#[kani::proof]
#[kani::unwind(14)]
fn c04_encode_delay_resp() { check_encode::<54>(T_DELAY_RESP) }

// @harness c04_encode_pdelay_req
// @props C04:quick C10:quick C14:quick
// @tier quick
// @timeout 600
// @functions Message::serialize, PDelayReqMessage::serialize_content
// @bounds arbitrary typed Pdelay_Req into a dirty 54-octet buffer
#[kani::proof]
#[kani::unwind(14)]
fn c04_encode_pdelay_req() { check_encode::<54>(T_PDELAY_REQ) }

// @harness c04_encode_pdelay_resp
// @props C04:quick C10:quick
// @tier quick
// @timeout 600
// @functions Message::serialize, PDelayRespMessage::serialize_content
// @bounds arbitrary typed Pdelay_Resp into a dirty 54-octet buffer
#[kani::proof]
#[kani::unwind(14)]
fn c04_encode_pdelay_resp() { check_encode::<54>(T_PDELAY_RESP) }

// @harness c04_encode_pdelay_resp_follow_up
// @props C04:quick C10:quick
// @tier quick
// @timeout 600
// @functions Message::serialize, PDelayRespFollowUpMessage::serialize_content
// @bounds arbitrary typed Pdelay_Resp_Follow_Up into a dirty 54-octet buffer
#[kani::proof]
#[kani::unwind(14)]
fn c04_encode_pdelay_resp_follow_up() { check_encode::<54>(T_PDELAY_RESP_FOLLOW_UP) }

// @harness c04_encode_announce
// @props C04:quick C11:quick
// @tier quick
// @timeout 900
// @functions Message::serialize, AnnounceMessage::serialize_content, ClockQuality::serialize, ClockAccuracy::to_primitive, TimeSource::to_primitive
// @bounds arbitrary typed Announce (all grandmaster attributes, utc offset, stepsRemoved, time source) into a dirty 64-octet buffer
#[kani::proof]
#[kani::unwind(14)]
fn c04_encode_announce() { check_encode::<64>(T_ANNOUNCE) }

// ================================================================================================
// Enumeration <-> octet maps (C04 item 4): small domains, still decided by the solver.
// ================================================================================================

// @harness c04_enum_octet_maps
// @props C04:quick
// @tier quick
// @timeout 600
// @functions TlvType::from_primitive, TlvType::to_primitive, ClockAccuracy::from_primitive, ClockAccuracy::to_primitive, TimeSource::from_primitive, TimeSource::to_primitive, ManagementAction::from_primitive, ManagementAction::to_primitive
// @bounds all 2^16 TLV type values, all 2^8 clockAccuracy / timeSource / action octets
#[kani::proof]
#[kani::unwind(4)]
fn c04_enum_octet_maps() {
    use crate::datastructures::common::{ClockAccuracy, TimeSource, TlvType};
    let t: u16 = kani::any();
    assert!(TlvType::from_primitive(t).to_primitive() == t, "C04: tlvType does not survive decode/encode");
    assert!(TlvType::from_primitive(t).announce_propagate() == ref_tlv_propagates(t), "C15: propagation class of the TLV type");
    let a: u8 = kani::any();
    let acc = ClockAccuracy::from_primitive(a).to_primitive();
    assert!(if acc_reserved(a) { acc_reserved(acc) } else { acc == a }, "C04: clockAccuracy octet changed by decode/encode");
    let s: u8 = kani::any();
    assert!(TimeSource::from_primitive(s).to_primitive() == s, "C04: timeSource octet changed by decode/encode");
    let m: u8 = kani::any();
    let act = management::ManagementAction::from_primitive(m & 0x0f).to_primitive();
    assert!(if (m & 0x0f) <= 4 { act == (m & 0x0f) } else { act >= 5 && act <= 15 }, "C04: management actionField");
    kani::cover!(t == 0x4001 && a == 0x80 && s == 0xf5, "witness");
}
