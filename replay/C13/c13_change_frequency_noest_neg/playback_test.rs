// harness: filters::kalman::verif_kalman::c13_change_frequency_noest_neg (variant base)
// paste into the harness module and run `cargo kani playback -Z concrete-playback`
/// Test generated for harness `filters::kalman::verif_kalman::c13_change_frequency_noest_neg` 
///
/// Check for `assertion`: "This is a placeholder message; Kani doesn't support message formatted at runtime"
///
/// # Warning
///
/// Concrete playback tests combined with stubs or contracts is highly
/// experimental, and subject to change.
///
/// The original harness has stubs which are not applied to this test.
/// This may cause a mismatch of non-deterministic values if the stub
/// creates any non-deterministic value.
/// The execution path may also differ, which can be used to refine the stub
/// logic.

#[test]
fn kani_concrete_playback_c13_change_frequency_noest_neg_5421446402523276746() {
    let concrete_vals: Vec<Vec<u8>> = vec![
        // 4611686018427387903ul
        vec![255, 255, 255, 255, 255, 255, 255, 63],
        // 4294967293
        vec![253, 255, 255, 255],
        // 4611686018427387903ul
        vec![255, 255, 255, 255, 255, 255, 255, 63],
        // 4294967295
        vec![255, 255, 255, 255],
        // -1
        vec![0, 0, 0, 0, 0, 0, 240, 191],
        // 0
        vec![0],
        // 1
        vec![1],
        // 1
        vec![1],
        // 1
        vec![1],
        // -399.730164
        vec![0, 0, 48, 192, 174, 251, 120, 192],
    ];
    kani::concrete_playback_run(concrete_vals, c13_change_frequency_noest_neg);
}
