// harness: filters::kalman::verif_kalman::c13_change_frequency_est_neg (variant base)
// paste into the harness module and run `cargo kani playback -Z concrete-playback`
/// Test generated for harness `filters::kalman::verif_kalman::c13_change_frequency_est_neg` 
///
/// Check for `assertion`: "This is a placeholder message; Kani doesn't support message formatted at runtime"
///
/// # Warning
///
/// Concrete playback tests combined with stubs or contracts is highly
/// experimental, and subject to change.
///
/// The original harness has stubs which are not applied to this test.
/// This may cause a mismatch of non-deterministic values if the stub
/// creates any non-deterministic value.
/// The execution path may also differ, which can be used to refine the stub
/// logic.

#[test]
fn kani_concrete_playback_c13_change_frequency_est_neg_7657765466306230495() {
    let concrete_vals: Vec<Vec<u8>> = vec![
        // 9223372036854775807ul
        vec![255, 255, 255, 255, 255, 255, 255, 127],
        // 4294967295
        vec![255, 255, 255, 255],
        // 9223372036854775807ul
        vec![255, 255, 255, 255, 255, 255, 255, 127],
        // 4294967295
        vec![255, 255, 255, 255],
        // -400
        vec![3, 0, 0, 0, 0, 0, 121, 192],
        // 1
        vec![1],
        // 4.940656e-324
        vec![1, 0, 0, 0, 0, 0, 0, 0],
        // -1.939525e-308
        vec![255, 255, 255, 255, 89, 242, 13, 128],
        // 4.940656e-324
        vec![1, 0, 0, 0, 0, 0, 0, 0],
        // 1
        vec![1],
        // 1
        vec![1],
        // 0
        vec![0],
        // -32
        vec![204, 255, 255, 255, 255, 255, 63, 192],
    ];
    kani::concrete_playback_run(concrete_vals, c13_change_frequency_est_neg);
}
