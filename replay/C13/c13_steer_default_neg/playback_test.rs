// harness: filters::kalman::verif_kalman::c13_steer_default_neg (variant base)
// paste into the harness module and run `cargo kani playback -Z concrete-playback`
/// Test generated for harness `filters::kalman::verif_kalman::c13_steer_default_neg` 
///
/// Check for `assertion`: "This is a placeholder message; Kani doesn't support message formatted at runtime"
///
/// # Warning
///
/// Concrete playback tests combined with stubs or contracts is highly
/// experimental, and subject to change.
///
/// The original harness has stubs which are not applied to this test.
/// This may cause a mismatch of non-deterministic values if the stub
/// creates any non-deterministic value.
/// The execution path may also differ, which can be used to refine the stub
/// logic.

#[test]
fn kani_concrete_playback_c13_steer_default_neg_3297315798696709515() {
    let concrete_vals: Vec<Vec<u8>> = vec![
        // 0.523499
        vec![224, 48, 2, 44, 129, 192, 224, 63],
        // 9223372036854775807ul
        vec![255, 255, 255, 255, 255, 255, 255, 127],
        // 4294967295
        vec![255, 255, 255, 255],
        // 9223372036854775807ul
        vec![255, 255, 255, 255, 255, 255, 255, 127],
        // 4294967295
        vec![255, 255, 255, 255],
        // -400
        vec![240, 255, 255, 255, 255, 255, 120, 192],
        // -0.001512
        vec![143, 109, 208, 198, 197, 199, 88, 191],
        // 0.0002
        vec![112, 67, 28, 235, 226, 54, 42, 63],
        // -3.492460e-10
        vec![50, 0, 0, 0, 0, 0, 248, 189],
        // 0
        vec![0],
        // 1
        vec![1],
    ];
    kani::concrete_playback_run(concrete_vals, c13_steer_default_neg);
}
