// harness: filters::kalman::verif_kalman::c13_steer_default_pos (variant base)
// paste into the harness module and run `cargo kani playback -Z concrete-playback`
/// Test generated for harness `filters::kalman::verif_kalman::c13_steer_default_pos` 
///
/// Check for `assertion`: "This is a placeholder message; Kani doesn't support message formatted at runtime"
///
/// # Warning
///
/// Concrete playback tests combined with stubs or contracts is highly
/// experimental, and subject to change.
///
/// The original harness has stubs which are not applied to this test.
/// This may cause a mismatch of non-deterministic values if the stub
/// creates any non-deterministic value.
/// The execution path may also differ, which can be used to refine the stub
/// logic.

#[test]
fn kani_concrete_playback_c13_steer_default_pos_18245983510506716452() {
    let concrete_vals: Vec<Vec<u8>> = vec![
        // 1.953125
        vec![239, 255, 255, 255, 255, 63, 255, 63],
        // 9223372036854775807ul
        vec![255, 255, 255, 255, 255, 255, 255, 127],
        // 4294967295
        vec![255, 255, 255, 255],
        // 9223372036854775807ul
        vec![255, 255, 255, 255, 255, 255, 255, 127],
        // 4294967295
        vec![255, 255, 255, 255],
        // -3.469447e-18
        vec![255, 255, 255, 255, 255, 255, 79, 188],
        // 0.001954
        vec![253, 255, 255, 255, 255, 1, 96, 63],
        // 6.819389e-159
        vec![127, 211, 255, 247, 247, 247, 23, 31],
        // -192
        vec![255, 255, 255, 255, 255, 255, 103, 192],
        // 1
        vec![1],
        // 0
        vec![0],
    ];
    kani::concrete_playback_run(concrete_vals, c13_steer_default_pos);
}
