// harness: filters::kalman::verif_kalman::c13_change_frequency (variant base)
// paste into the harness module and run `cargo kani playback -Z concrete-playback`
/// Test generated for harness `filters::kalman::verif_kalman::c13_change_frequency` 
///
/// Check for `assertion`: "This is a placeholder message; Kani doesn't support message formatted at runtime"
///
/// # Warning
///
/// Concrete playback tests combined with stubs or contracts is highly
/// experimental, and subject to change.
///
/// The original harness has stubs which are not applied to this test.
/// This may cause a mismatch of non-deterministic values if the stub
/// creates any non-deterministic value.
/// The execution path may also differ, which can be used to refine the stub
/// logic.

#[test]
fn kani_concrete_playback_c13_change_frequency_5200867124770329022() {
    let concrete_vals: Vec<Vec<u8>> = vec![
        // 9223372036854775807ul
        vec![255, 255, 255, 255, 255, 255, 255, 127],
        // 4294967295
        vec![255, 255, 255, 255],
        // 9223372036854775807ul
        vec![255, 255, 255, 255, 255, 255, 255, 127],
        // 4294967295
        vec![255, 255, 255, 255],
        // -399.999798
        vec![0, 248, 219, 43, 255, 255, 120, 192],
        // 1
        vec![1],
        // 0
        vec![0, 0, 0, 0, 0, 0, 0, 0],
        // 1.104921e-10
        vec![57, 88, 255, 231, 48, 95, 222, 61],
        // 0
        vec![0, 0, 0, 0, 0, 0, 0, 0],
        // 1
        vec![1],
        // 1
        vec![1],
        // 0
        vec![0],
        // -0.000122
        vec![0, 0, 0, 0, 0, 9, 32, 191],
    ];
    kani::concrete_playback_run(concrete_vals, c13_change_frequency);
}
