// harness: bmc::bmca::verif_bmca::c05_state_decision_matches_reference (variant base)
// paste into the harness module and run `cargo kani playback -Z concrete-playback`
/// Test generated for harness `bmc::bmca::verif_bmca::c05_state_decision_matches_reference` 
///
/// Check for `cover`: "stay"

#[test]
fn kani_concrete_playback_c05_state_decision_matches_reference_10052710792493740788() {
    let concrete_vals: Vec<Vec<u8>> = vec![
        // 0
        vec![0],
        // 48
        vec![48],
        // 0
        vec![0],
        // 10
        vec![10],
        // 80
        vec![80],
        // 0
        vec![0],
        // 63
        vec![63],
        // 250
        vec![250],
        // 32
        vec![32],
        // 128
        vec![128],
        // 0
        vec![0],
        // 128
        vec![128],
        // 38
        vec![38],
        // 33800
        vec![8, 132],
        // 0
        vec![0, 0],
        // 0
        vec![0],
        // 0
        vec![0],
        // 1
        vec![1],
    ];
    kani::concrete_playback_run(concrete_vals, c05_state_decision_matches_reference);
}
