// harness: bmc::bmca::verif_bmca::c05_state_decision_matches_reference (variant base)
// paste into the harness module and run `cargo kani playback -Z concrete-playback`
/// Test generated for harness `bmc::bmca::verif_bmca::c05_state_decision_matches_reference` 
///
/// Check for `assertion`: "This is a placeholder message; Kani doesn't support message formatted at runtime"

#[test]
fn kani_concrete_playback_c05_state_decision_matches_reference_15364763346858056997() {
    let concrete_vals: Vec<Vec<u8>> = vec![
        // 128
        vec![128],
        // 128
        vec![128],
        // 65
        vec![65],
        // 0
        vec![0],
        // 92
        vec![92],
        // 128
        vec![128],
        // 0
        vec![0],
        // 0
        vec![0],
        // 0
        vec![0],
        // 0
        vec![0],
        // 0
        vec![0],
        // 0
        vec![0],
        // 128
        vec![128],
        // 0
        vec![0, 0],
        // 3
        vec![3, 0],
        // 1
        vec![1],
        // 1
        vec![1, 0],
        // 192
        vec![192],
        // 0
        vec![0],
        // 162
        vec![162],
        // 96
        vec![96],
        // 0
        vec![0],
        // 64
        vec![64],
        // 64
        vec![64],
        // 146
        vec![146],
        // 0
        vec![0, 0],
        // 0
        vec![0, 0],
        // 0ul
        vec![0, 0, 0, 0, 0, 0, 0, 0],
        // 98308
        vec![4, 128, 1, 0],
        // 0
        vec![0, 0],
        // 0
        vec![0],
        // 0
        vec![0],
        // 128
        vec![128],
        // 0
        vec![0, 0],
        // 0
        vec![0],
        // 128
        vec![128],
        // 128
        vec![128],
        // 0
        vec![0],
        // 32
        vec![32],
        // 92
        vec![92],
        // 70
        vec![70],
        // 0
        vec![0],
        // 0
        vec![0],
        // 33280
        vec![0, 130],
        // 16
        vec![16],
        // 9223372036854775808
        vec![0, 0, 0, 0, 0, 0, 0, 128, 0, 0, 0, 0, 0, 0, 0, 0],
        // 1
        vec![1],
        // 0
        vec![0],
        // 0
        vec![0, 0],
        // 192
        vec![192],
        // 0
        vec![0],
        // 162
        vec![162],
        // 96
        vec![96],
        // 0
        vec![0],
        // 64
        vec![64],
        // 64
        vec![64],
        // 146
        vec![146],
        // 0
        vec![0, 0],
        // 0
        vec![0, 0],
        // 0ul
        vec![0, 0, 0, 0, 0, 0, 0, 0],
        // 98316
        vec![12, 128, 1, 0],
        // 0
        vec![0, 0],
        // 0
        vec![0],
        // 0
        vec![0],
        // 128
        vec![128],
        // 0
        vec![0, 0],
        // 0
        vec![0],
        // 128
        vec![128],
        // 128
        vec![128],
        // 0
        vec![0],
        // 32
        vec![32],
        // 92
        vec![92],
        // 70
        vec![70],
        // 0
        vec![0],
        // 0
        vec![0],
        // 33280
        vec![0, 130],
        // 16
        vec![16],
        // 9223372036854775808
        vec![0, 0, 0, 0, 0, 0, 0, 128, 0, 0, 0, 0, 0, 0, 0, 0],
        // 2
        vec![2],
    ];
    kani::concrete_playback_run(concrete_vals, c05_state_decision_matches_reference);
}
