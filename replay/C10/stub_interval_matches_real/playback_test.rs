// harness: verif_root::stubs::stub_interval_matches_real (variant base)
// paste into the harness module and run `cargo kani playback -Z concrete-playback`
/// Test generated for harness `verif_root::stubs::stub_interval_matches_real` 
///
/// Check for `assertion`: "This is a placeholder message; Kani doesn't support message formatted at runtime"

#[test]
fn kani_concrete_playback_stub_interval_matches_real_4839678891814536944() {
    let concrete_vals: Vec<Vec<u8>> = vec![
    ];
    kani::concrete_playback_run(concrete_vals, stub_interval_matches_real);
}
