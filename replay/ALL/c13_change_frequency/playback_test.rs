// harness: filters::kalman::verif_kalman::c13_change_frequency (variant base)
// paste into the harness module and run `cargo kani playback -Z concrete-playback`
/// Test generated for harness `filters::kalman::verif_kalman::c13_change_frequency` 
///
/// Check for `assertion`: "This is a placeholder message; Kani doesn't support message formatted at runtime"
///
/// # Warning
///
/// Concrete playback tests combined with stubs or contracts is highly
/// experimental, and subject to change.
///
/// The original harness has stubs which are not applied to this test.
/// This may cause a mismatch of non-deterministic values if the stub
/// creates any non-deterministic value.
/// The execution path may also differ, which can be used to refine the stub
/// logic.

#[test]
fn kani_concrete_playback_c13_change_frequency_17828980579517139100() {
    let concrete_vals: Vec<Vec<u8>> = vec![
        // 4.144525e-317
        vec![4, 0, 128, 0, 0, 0, 0, 0],
        // 1.000000e+6
        vec![0, 0, 0, 0, 128, 132, 46, 65],
        // 0ul
        vec![0, 0, 0, 0, 0, 0, 0, 0],
        // 0
        vec![0, 0, 0, 0],
        // 3458764513820540928ul
        vec![0, 0, 0, 0, 0, 0, 0, 48],
        // 0
        vec![0, 0, 0, 0],
        // 1.976263e-323
        vec![4, 0, 0, 0, 0, 0, 0, 0],
        // 1
        vec![1],
        // 0
        vec![0, 0, 0, 0, 0, 0, 0, 0],
        // 5.486124e+303
        vec![0, 0, 0, 0, 0, 0, 0, 127],
        // 0
        vec![0, 0, 0, 0, 0, 0, 0, 0],
        // 1
        vec![1],
        // 0
        vec![0],
        // 0
        vec![0],
        // +inf
        vec![0, 0, 0, 0, 0, 0, 240, 127],
        // 0
        vec![0, 0, 0, 0, 0, 0, 0, 0],
        // 0
        vec![0, 0, 0, 0, 0, 0, 0, 0],
        // 0
        vec![0, 0, 0, 0, 0, 0, 0, 0],
    ];
    kani::concrete_playback_run(concrete_vals, c13_change_frequency);
}
