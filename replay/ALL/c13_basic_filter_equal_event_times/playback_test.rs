// harness: filters::basic::verif_basic::c13_basic_filter_equal_event_times (variant base)
// paste into the harness module and run `cargo kani playback -Z concrete-playback`
/// Test generated for harness `filters::basic::verif_basic::c13_basic_filter_equal_event_times` 
///
/// Check for `cover`: "frequency command issued"

#[test]
fn kani_concrete_playback_c13_basic_filter_equal_event_times_7248303860313104224() {
    let concrete_vals: Vec<Vec<u8>> = vec![
        // 6917529027641081856ul
        vec![0, 0, 0, 0, 0, 0, 0, 96],
        // 0
        vec![0, 0, 0, 0],
        // 2475880078570760549798248448
        vec![0, 0, 0, 0, 0, 0, 0, 0, 0, 0, 0, 8, 0, 0, 0, 0],
        // -2475880078570760549798248448
        vec![0, 0, 0, 0, 0, 0, 0, 0, 0, 0, 0, 248, 255, 255, 255, 255],
        // 0.875
        vec![0, 0, 0, 0, 0, 0, 236, 63],
        // -1.297660e+5
        vec![0, 0, 0, 0, 96, 174, 255, 192],
        // 6341068274398134271ul
        vec![255, 255, 255, 199, 255, 255, 255, 87],
        // 4294934528
        vec![0, 128, 255, 255],
        // -4035225266123997184
        vec![0, 128, 255, 255, 255, 255, 255, 199, 255, 255, 255, 255, 255, 255, 255, 255],
        // 0
        vec![0],
    ];
    kani::concrete_playback_run(concrete_vals, c13_basic_filter_equal_event_times);
}
