// harness: filters::kalman::verif_kalman::c08_kalman_peer_delay_only_never_steers (variant base)
// paste into the harness module and run `cargo kani playback -Z concrete-playback`
/// Test generated for harness `filters::kalman::verif_kalman::c08_kalman_peer_delay_only_never_steers` 
///
/// Check for `assertion`: "attempt to subtract with overflow"
///
/// # Warning
///
/// Concrete playback tests combined with stubs or contracts is highly
/// experimental, and subject to change.
///
/// The original harness has stubs which are not applied to this test.
/// This may cause a mismatch of non-deterministic values if the stub
/// creates any non-deterministic value.
/// The execution path may also differ, which can be used to refine the stub
/// logic.

#[test]
fn kani_concrete_playback_c08_kalman_peer_delay_only_never_steers_10894215950092945616() {
    let concrete_vals: Vec<Vec<u8>> = vec![
        // 2080663027845169151ul
        vec![255, 255, 255, 255, 255, 255, 223, 28],
        // 4294967294
        vec![254, 255, 255, 255],
        // 1
        vec![1],
        // 0
        vec![0, 0, 0, 0, 0, 0, 0, 0],
        // 0
        vec![0, 0, 0, 0, 0, 0, 0, 0],
        // 0
        vec![0, 0, 0, 0, 0, 0, 0, 0],
        // 2080663027845169151ul
        vec![255, 255, 255, 255, 255, 255, 223, 28],
        // 4294967294
        vec![254, 255, 255, 255],
        // 0
        vec![0, 0, 0, 0, 0, 0, 0, 0, 0, 0, 0, 0, 0, 0, 0, 0],
        // 0
        vec![0],
        // 0
        vec![0],
        // 0
        vec![0, 0, 0, 0, 0, 0, 0, 0],
        // 0
        vec![0, 0, 0, 0, 0, 0, 0, 0],
        // 0
        vec![0, 0, 0, 0, 0, 0, 0, 0],
        // 2.147484e+9
        vec![0, 0, 0, 0, 0, 0, 224, 65],
        // -2
        vec![255, 255, 255, 255, 255, 255, 255, 191],
        // -inf
        vec![0, 0, 0, 0, 0, 0, 240, 255],
    ];
    kani::concrete_playback_run(concrete_vals, c08_kalman_peer_delay_only_never_steers);
}

/// Test generated for harness `filters::kalman::verif_kalman::c08_kalman_peer_delay_only_never_steers` 
///
/// Check for `assertion`: "This is a placeholder message; Kani doesn't support message formatted at runtime"
///
/// # Warning
///
/// Concrete playback tests combined with stubs or contracts is highly
/// experimental, and subject to change.
///
/// The original harness has stubs which are not applied to this test.
/// This may cause a mismatch of non-deterministic values if the stub
/// creates any non-deterministic value.
/// The execution path may also differ, which can be used to refine the stub
/// logic.

#[test]
fn kani_concrete_playback_c08_kalman_peer_delay_only_never_steers_2428384559217643725() {
    let concrete_vals: Vec<Vec<u8>> = vec![
        // 9222527611924643839ul
        vec![255, 255, 255, 255, 255, 255, 252, 127],
        // 4294967295
        vec![255, 255, 255, 255],
        // 1
        vec![1],
        // 0
        vec![0, 0, 0, 0, 0, 0, 0, 0],
        // 0
        vec![0, 0, 0, 0, 0, 0, 0, 0],
        // 0
        vec![0, 0, 0, 0, 0, 0, 0, 0],
        // 9222527611924643839ul
        vec![255, 255, 255, 255, 255, 255, 252, 127],
        // 4294967295
        vec![255, 255, 255, 255],
        // 0
        vec![0, 0, 0, 0, 0, 0, 0, 0, 0, 0, 0, 0, 0, 0, 0, 0],
        // 0
        vec![0],
        // 0
        vec![0],
        // 0
        vec![0, 0, 0, 0, 0, 0, 0, 0],
        // 0
        vec![0, 0, 0, 0, 0, 0, 0, 0],
        // 0
        vec![0, 0, 0, 0, 0, 0, 0, 0],
        // 1.137976e+20
        vec![114, 235, 101, 35, 9, 173, 24, 68],
        // -2
        vec![255, 255, 255, 255, 255, 255, 255, 191],
        // -1.811136e-71
        vec![96, 56, 2, 254, 255, 255, 63, 177],
    ];
    kani::concrete_playback_run(concrete_vals, c08_kalman_peer_delay_only_never_steers);
}

/// Test generated for harness `filters::kalman::verif_kalman::c08_kalman_peer_delay_only_never_steers` 
///
/// Check for `assertion`: "This is a placeholder message; Kani doesn't support message formatted at runtime"
///
/// # Warning
///
/// Concrete playback tests combined with stubs or contracts is highly
/// experimental, and subject to change.
///
/// The original harness has stubs which are not applied to this test.
/// This may cause a mismatch of non-deterministic values if the stub
/// creates any non-deterministic value.
/// The execution path may also differ, which can be used to refine the stub
/// logic.

#[test]
fn kani_concrete_playback_c08_kalman_peer_delay_only_never_steers_13071022007040682081() {
    let concrete_vals: Vec<Vec<u8>> = vec![
        // 9223372036854775807ul
        vec![255, 255, 255, 255, 255, 255, 255, 127],
        // 4294967295
        vec![255, 255, 255, 255],
        // 0
        vec![0],
        // 1143492092887052ul
        vec![12, 0, 0, 0, 0, 16, 4, 0],
        // 61640704
        vec![0, 144, 172, 3],
        // 550597490039062500
        vec![228, 255, 255, 255, 127, 29, 164, 7, 0, 0, 0, 0, 0, 0, 0, 0],
        // 0
        vec![0],
        // 1
        vec![1],
        // -0.03125
        vec![0, 0, 0, 0, 0, 0, 160, 191],
        // -8.988466e+307
        vec![255, 255, 255, 255, 255, 255, 223, 255],
        // -inf
        vec![0, 0, 0, 0, 0, 0, 240, 255],
    ];
    kani::concrete_playback_run(concrete_vals, c08_kalman_peer_delay_only_never_steers);
}

/// Test generated for harness `filters::kalman::verif_kalman::c08_kalman_peer_delay_only_never_steers` 
///
/// Check for `assertion`: "This is a placeholder message; Kani doesn't support message formatted at runtime"
///
/// # Warning
///
/// Concrete playback tests combined with stubs or contracts is highly
/// experimental, and subject to change.
///
/// The original harness has stubs which are not applied to this test.
/// This may cause a mismatch of non-deterministic values if the stub
/// creates any non-deterministic value.
/// The execution path may also differ, which can be used to refine the stub
/// logic.

#[test]
fn kani_concrete_playback_c08_kalman_peer_delay_only_never_steers_18271906880402260841() {
    let concrete_vals: Vec<Vec<u8>> = vec![
        // 4940203242084281316ul
        vec![228, 171, 170, 162, 172, 32, 143, 68],
        // 140516352
        vec![0, 28, 96, 8],
        // 1
        vec![1],
        // 0
        vec![0, 0, 0, 0, 0, 0, 0, 0],
        // 0
        vec![0, 0, 0, 0, 0, 0, 0, 0],
        // 0
        vec![0, 0, 0, 0, 0, 0, 0, 0],
        // 9056511993467023350ul
        vec![246, 175, 170, 178, 172, 49, 175, 125],
        // 2631933187
        vec![3, 29, 224, 156],
        // 550597490039062500
        vec![228, 255, 255, 255, 127, 29, 164, 7, 0, 0, 0, 0, 0, 0, 0, 0],
        // 0
        vec![0],
        // 0
        vec![0],
        // 0
        vec![0, 0, 0, 0, 0, 0, 0, 0],
        // 0
        vec![0, 0, 0, 0, 0, 0, 0, 0],
        // 0
        vec![0, 0, 0, 0, 0, 0, 0, 0],
        // 1.627933e+237
        vec![0, 0, 0, 0, 0, 0, 48, 113],
        // -8.988466e+307
        vec![255, 255, 255, 255, 255, 255, 223, 255],
        // 1.493222e-300
        vec![0, 0, 0, 0, 0, 0, 176, 1],
    ];
    kani::concrete_playback_run(concrete_vals, c08_kalman_peer_delay_only_never_steers);
}
