// harness: filters::kalman::verif_kalman::c13_progress_filtertime_backwards (variant base)
// paste into the harness module and run `cargo kani playback -Z concrete-playback`
/// Test generated for harness `filters::kalman::verif_kalman::c13_progress_filtertime_backwards` 
///
/// Check for `assertion`: "assertion failed: time >= self.filter_time"

#[test]
fn kani_concrete_playback_c13_progress_filtertime_backwards_8763336146941897107() {
    let concrete_vals: Vec<Vec<u8>> = vec![
        // 309694946568ul
        vec![8, 221, 65, 27, 72, 0, 0, 0],
        // 79874
        vec![2, 56, 1, 0],
    ];
    kani::concrete_playback_run(concrete_vals, c13_progress_filtertime_backwards);
}
