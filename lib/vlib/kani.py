"""Run one Kani harness in its own process, parse the regular-format CBMC result."""
import os, re, resource, signal, subprocess, time, shutil

ENV = dict(os.environ)
ENV["CARGO_NET_OFFLINE"] = "true"
ENV.pop("RUSTUP_TOOLCHAIN", None)
ENV["CARGO_TERM_COLOR"] = "never"


def _limits(mem_gb):
    def f():
        os.setsid()
        lim = int(mem_gb * (1 << 30))
        try:
            resource.setrlimit(resource.RLIMIT_AS, (lim, lim))
        except Exception:
            pass
    return f


CHECK_RE = re.compile(
    r"^Check (\d+): (\S+)\n\s+- Status: (\w+)\n\s+- Description: \"(.*?)\"\n\s+- Location: (.*?)$", re.M | re.S)


def _resolve_message(desc, loc):
    """Kani prints a placeholder for assert! messages it considers runtime-formatted; recover the literal
    from the harness source line the location points at."""
    if "placeholder message" not in desc:
        return desc
    m = re.search(r"vh/([\w/]+\.rs):(\d+):", loc)
    if not m:
        return desc
    try:
        from . import meta
        lines = open(os.path.join(meta.HARNESS_DIR, m.group(1))).read().split("\n")
        chunk = " ".join(lines[int(m.group(2)) - 1: int(m.group(2)) + 3])
        lit = re.findall(r'"((?:[^"\\]|\\.)*)"', chunk)
        if lit:
            return lit[0] if len(lit) == 1 or not lit[0].startswith("C") is False else lit[0]
    except Exception:
        pass
    return desc


def parse_log(text):
    r = {"checks": 0, "failed": [], "undetermined": [], "covers": [], "verdict": None,
         "cbmc_time_s": None, "unwind_fail": False, "stubs": []}
    for m in re.finditer(r"^Check (\d+): ([^\n]+)\n\s+- Status: (\w+)\n\s+- Description: \"(.*?)\"\n(?:\s+- Location: (.*?)\n)?", text, re.M | re.S):
        num, name, status, desc, loc = m.groups()
        loc = (loc or "").strip()
        if ".cover." in name or status in ("SATISFIED", "UNSATISFIABLE"):
            r["covers"].append({"name": name, "status": status, "desc": desc, "loc": loc})
            continue
        r["checks"] += 1
        if status == "FAILURE":
            desc = _resolve_message(desc, loc)
            if re.match(r"^NaN on (addition|subtraction|multiplication|division)", desc):
                # CBMC's --nan-check flags float operations that *produce* a NaN. That is not a panic and not one
                # of the properties; finiteness of what reaches the clock is asserted explicitly by the C13 harnesses.
                r.setdefault("nan_ops", []).append({"name": name, "desc": desc, "loc": loc})
                continue
            r["failed"].append({"name": name, "desc": desc, "loc": loc})
            if "unwinding assertion" in desc:
                r["unwind_fail"] = True
        elif status in ("UNDETERMINED", "UNKNOWN"):
            r["undetermined"].append({"name": name, "desc": desc, "loc": loc})
    m = re.search(r"^VERIFICATION:- (\w+)", text, re.M)
    if m:
        r["verdict"] = m.group(1)
    m = re.search(r"^Verification Time: ([0-9.]+)s", text, re.M)
    if m:
        r["cbmc_time_s"] = float(m.group(1))
    r["stubs"] = re.findall(r"^\s*- Stub: (.*)$", text, re.M)
    m = re.search(r"\*\* (\d+) of (\d+) failed", text)
    if m:
        r["summary_failed"] = int(m.group(1))
        r["summary_total"] = int(m.group(2))
    return r


def run_harness(repo_dir, target_dir, h, logdir, extra_args=(), timeout=None, tag=""):
    """Returns dict(status=PASS|FAIL|TIMEOUT|OOM|ERROR, ...)."""
    os.makedirs(logdir, exist_ok=True)
    log = os.path.join(logdir, h.fn + tag + ".log")
    cmd = ["/usr/bin/time", "-f", "MAXRSS_KB=%M", "cargo", "kani", "-p", "statime",
           "--harness", h.full, "--exact", "--target-dir", target_dir]
    if h.stubbing:
        cmd += ["-Z", "stubbing"]
    if h.features:
        cmd += ["--no-default-features", "--features", h.features] if h.features != "none" else ["--no-default-features"]
    cmd += list(extra_args)
    if getattr(h, "cbmc_args", None):
        cmd += ["-Z", "unstable-options", "--cbmc-args"] + h.cbmc_args.split()
    t0 = time.time()
    to = timeout or h.timeout
    status = None
    with open(log, "w") as fh:
        p = subprocess.Popen(cmd, cwd=repo_dir, stdout=fh, stderr=subprocess.STDOUT, env=ENV,
                             preexec_fn=_limits(h.mem_gb))
        try:
            rc = p.wait(timeout=to)
        except subprocess.TimeoutExpired:
            status = "TIMEOUT"
            try:
                os.killpg(p.pid, signal.SIGKILL)
            except Exception:
                pass
            p.wait()
            rc = -9
    wall = time.time() - t0
    with open(log, errors="replace") as fh:
        text = fh.read()
    r = parse_log(text)
    r["wall_s"] = round(wall, 1)
    r["rc"] = rc
    r["log"] = log
    r["cmd"] = " ".join(cmd[3:])
    m = re.search(r"MAXRSS_KB=(\d+)", text)
    r["max_rss_mb"] = int(m.group(1)) // 1024 if m else None
    # cross-check the per-check parse against Kani's own summary
    if r.get("summary_failed") is not None and r["summary_failed"] != len(r["failed"]) + len(r.get("nan_ops", [])) and status is None and r["verdict"] == "FAILED":
        fc = re.findall(r"^Failed Checks: (.*)$", text, re.M)
        for d in fc[len(r["failed"]):]:
            r["failed"].append({"name": "?", "desc": d, "loc": "(see log)"})
    if status is None:
        if r["verdict"] == "SUCCESSFUL" and rc == 0 and not r["failed"] and not r["undetermined"]:
            status = "PASS"
        elif r["verdict"] == "FAILED" and not r["failed"] and not r["undetermined"] and r.get("nan_ops") \
                and r.get("summary_failed") == len(r["nan_ops"]):
            # the only failed checks are NaN-producing float operations (see above)
            status = "PASS"
        elif r["verdict"] == "FAILED" and r["failed"]:
            status = "FAIL"
        elif re.search(r"std::bad_alloc|Out of memory|out of memory|memory exhausted|SIGKILL|Killed", text) or \
                ("Status: ERROR" in text):
            status = "OOM"
        elif re.search(r"^error(\[E\d+\])?:", text, re.M):
            status = "ERROR"
        elif r["verdict"] == "FAILED":
            # FAILED without any failing check (seen with ulimit + terse); treat as error, never as pass
            status = "ERROR"
        else:
            status = "ERROR"
    r["status"] = status
    return r


def seed_target(repo_dir, target_dir, h, logdir):
    """Build dependencies once (only-codegen for one harness) so worker target dirs can be copied."""
    os.makedirs(logdir, exist_ok=True)
    log = os.path.join(logdir, "_seed_%s.log" % os.path.basename(target_dir))
    cmd = ["cargo", "kani", "-p", "statime", "--harness", h.full, "--exact", "--target-dir", target_dir,
           "--only-codegen"]
    if h.stubbing:
        cmd += ["-Z", "stubbing"]
    with open(log, "w") as fh:
        rc = subprocess.call(cmd, cwd=repo_dir, stdout=fh, stderr=subprocess.STDOUT, env=ENV)
    if rc != 0:
        with open(log, errors="replace") as fh:
            text = fh.read()
        return False, text
    return True, ""
