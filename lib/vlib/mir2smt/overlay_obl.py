"""C18 obligations (overlay clock) - filled in below."""


def build():
    return []


def validate(S, native, qdir, log):
    return 0, []
