"""C18 obligations: OverlayClock (engine M). State = (roclock.now, last_sync, shift, ppm)."""
import os, re, struct
from .engine import Ctx, Exec, Int, Fx, Bool, F64, Struct, Tup, Opt, Ref, UNIT, Unsupported, in_range, lit
from .summaries import SUMMARIES
from . import obligations as OB

OVERLAY = "overlay_clock.rs"
NS = 1_000_000_000
TWO32 = 1 << 32
T_LO = 0
T_HI = (1 << 48) * NS * TWO32            # underlying clock anywhere in the PTP range
SHIFT = (1 << 63) * TWO32                # |shift| < 2^63 ns
OFF = 10 * NS * TWO32                    # step offsets within +-10 s
ELAPSED = 10_000 * NS * TWO32            # <= 10^4 s between adjustments


def mk_clock(now, last, shift, ppm):
    return Struct("OverlayClock", [Struct("Clk", [OB.mk_time(now)]), OB.mk_time(last), OB.mk_dur(shift), F64(ppm)])


def state_ranges(ctx):
    return ["(<= 0 last)", "(<= last now)", "(< now %d)" % T_HI, "(<= (- now last) %d)" % ELAPSED,
            "(< (- %d) shift)" % SHIFT, "(< shift %d)" % SHIFT, "(<= (- 500.0) ppm)", "(<= ppm 500.0)"]


def declare_state(ctx):
    for v in ("now", "last", "shift"):
        ctx.var(v)
    ctx.var("ppm", "Real")


def run_method(S, ctx, ex, name, clock, extra):
    f = S.f(OVERLAY, name)
    st = OB.State() if hasattr(OB, "State") else None
    from .engine import State
    st = State()
    st.store[("in", 0)] = clock
    args = [Ref(("in", 0))] + extra
    outs = ex.run(f, args, st)
    return outs


def final_clock(o):
    return o.store[("in", 0)]


def o_set_frequency_continuous(S, qdir):
    oid = "c18_set_frequency_continuous"
    ctx, ex = S.new()
    declare_state(ctx)
    ctx.var("ppm2", "Real")
    clk = mk_clock("now", "last", "shift", "ppm")
    before = run_method(S, ctx, ex, "time_from_underlying", clk, [OB.mk_time("now")])
    outs = run_method(S, ctx, ex, "set_frequency", clk, [F64("ppm2")])
    disj, reach = [], []
    rng = state_ranges(ctx) + ["(<= (- 500.0) ppm2)", "(<= ppm2 500.0)", "(> (+ last shift) %d)" % (10 * NS * TWO32)]
    for b in before:
        if b.kind != "ret":
            continue
        for o in outs:
            pc = OB.AND(b.pc + o.pc)
            if o.kind != "ret":
                disj.append(pc)
                continue
            c2 = final_clock(o)
            after = run_method(S, ctx, ex, "time_from_underlying", c2, [OB.mk_time("now")])
            ret = OB.bits(o.value)   # Result::Ok(Time)
            for a in after:
                pc2 = OB.AND(b.pc + o.pc + a.pc)
                if a.kind != "ret":
                    disj.append(pc2)
                else:
                    disj.append(OB.AND([pc2, "(not (and (= %s %s) (= %s %s)))" % (ret, OB.bits(b.value), OB.bits(a.value), ret)]))
                    reach.append(pc2)
    # the reading before must itself be defined (no overflow in time_from_underlying) for states in range
    for b in before:
        if b.kind != "ret":
            disj.append(OB.AND(b.pc))
    r1 = OB.check(qdir, oid + ".goal", OB.script(ctx, rng + [OB.OR(disj)]), "unsat", 180, produce_model=True, get_values=["now", "last", "shift", "ppm", "ppm2"])
    r2 = OB.check(qdir, oid + ".reach", OB.script(ctx, rng + [OB.OR(reach)]), "sat", 180)
    r1["replayer"] = lambda m: replay_setfreq(S, m)
    return [r1, r2], ctx


def o_step_exact(S, qdir):
    oid = "c18_step_clock_exact"
    ctx, ex = S.new()
    declare_state(ctx)
    ctx.var("off")
    clk = mk_clock("now", "last", "shift", "ppm")
    before = run_method(S, ctx, ex, "time_from_underlying", clk, [OB.mk_time("now")])
    outs = run_method(S, ctx, ex, "step_clock", clk, [OB.mk_dur("off")])
    rng = state_ranges(ctx) + ["(< (- %d) off)" % OFF, "(< off %d)" % OFF, "(> (+ now shift) %d)" % (20 * NS * TWO32)]
    disj, reach = [], []
    for b in before:
        if b.kind != "ret":
            disj.append(OB.AND(b.pc))
            continue
        for o in outs:
            pc = OB.AND(b.pc + o.pc)
            if o.kind != "ret":
                disj.append(pc)
                continue
            c2 = final_clock(o)
            after = run_method(S, ctx, ex, "time_from_underlying", c2, [OB.mk_time("now")])
            ret = OB.bits(o.value)
            for a in after:
                pc2 = OB.AND(b.pc + o.pc + a.pc)
                if a.kind != "ret":
                    disj.append(pc2)
                else:
                    disj.append(OB.AND([pc2, "(not (and (= (- %s %s) off) (= %s %s)))" % (OB.bits(a.value), OB.bits(b.value), ret, OB.bits(a.value))]))
                    reach.append(pc2)
    r1 = OB.check(qdir, oid + ".goal", OB.script(ctx, rng + [OB.OR(disj)]), "unsat", 180, produce_model=True, get_values=["now", "last", "shift", "ppm", "off"])
    r2 = OB.check(qdir, oid + ".reach", OB.script(ctx, rng + [OB.OR(reach)]), "sat", 180)
    r1["replayer"] = lambda m: replay_step(S, m)
    return [r1, r2], ctx


def o_rate_unity(S, qdir):
    """with ppm == 0 the overlay advances exactly like the underlying clock"""
    oid = "c18_rate_exact_at_zero_ppm"
    ctx, ex = S.new()
    declare_state(ctx)
    ctx.var("t1")
    ctx.var("t2")
    clk = mk_clock("now", "last", "shift", "ppm")
    r1s = run_method(S, ctx, ex, "time_from_underlying", clk, [OB.mk_time("t1")])
    r2s = run_method(S, ctx, ex, "time_from_underlying", clk, [OB.mk_time("t2")])
    rng = state_ranges(ctx) + ["(= ppm 0.0)", "(<= last t1)", "(<= t1 t2)", "(<= (- t2 last) %d)" % ELAPSED, "(> (+ last shift) 0)"]
    disj, reach = [], []
    for a in r1s:
        for b in r2s:
            pc = OB.AND(a.pc + b.pc)
            if a.kind != "ret" or b.kind != "ret":
                disj.append(pc)
            else:
                disj.append(OB.AND([pc, "(not (= (- %s %s) (- t2 t1)))" % (OB.bits(b.value), OB.bits(a.value))]))
                reach.append(pc)
    q1 = OB.check(qdir, oid + ".goal", OB.script(ctx, rng + [OB.OR(disj)]), "unsat", 180, produce_model=True, get_values=["now", "last", "shift", "t1", "t2"])
    q2 = OB.check(qdir, oid + ".reach", OB.script(ctx, rng + [OB.OR(reach)]), "sat", 180)
    return [q1, q2], ctx


def o_rate_bound(S, qdir):
    """between adjustments: reading(t2) - reading(t1) = (t2 - t1) + corr(t2) - corr(t1) where each corr is
    elapsed * ppm / 10^6 up to fixed-point rounding: |corr - elapsed*ppm/10^6| <= 2 units (2^-32 ns) + the
    f64->fixed conversion error of ppm (<= 2^-33 relative to one unit per 2^32 elapsed units)"""
    oid = "c18_rate_within_rounding"
    ctx, ex = S.new()
    declare_state(ctx)
    ctx.var("t1")
    clk = mk_clock("now", "last", "shift", "ppm")
    r1s = run_method(S, ctx, ex, "time_from_underlying", clk, [OB.mk_time("t1")])
    rng = state_ranges(ctx) + ["(<= last t1)", "(<= (- t1 last) %d)" % ELAPSED, "(> (+ last shift) %d)" % (10 * NS * TWO32)]
    disj, reach = [], []
    for a in r1s:
        pc = OB.AND(a.pc)
        if a.kind != "ret":
            disj.append(pc)
        else:
            # ideal = t1 + shift + (t1-last) * ppm / 1e6  (real arithmetic);  |reading - ideal| <= 2 + (t1-last)/2^33/1e6 + 1
            ideal = "(+ (to_real (+ t1 shift)) (/ (* (to_real (- t1 last)) ppm) 1000000.0))"
            err = "(- (to_real %s) %s)" % (OB.bits(a.value), ideal)
            bound = "(+ 3.0 (/ (to_real (- t1 last)) 8589934592000000.0))"
            disj.append(OB.AND([pc, "(not (and (<= (- %s) %s) (<= %s %s)))" % (bound, err, err, bound)]))
            reach.append(pc)
    q1 = OB.check(qdir, oid + ".goal", OB.script(ctx, rng + [OB.OR(disj)]), "unsat", 240, produce_model=True, get_values=["now", "last", "shift", "ppm", "t1"])
    q2 = OB.check(qdir, oid + ".reach", OB.script(ctx, rng + [OB.OR(reach)]), "sat", 240)
    q1["replayer"] = lambda m: replay_rate(S, m)
    return [q1, q2], ctx


def replay_rate(S, model):
    from fractions import Fraction
    vals = OB.model_values(model, ["now", "last", "shift", "t1"])
    ppm = parse_real(model, "ppm")
    if vals is None or ppm is None:
        return None, "model not parsed"
    out = OB.native_eval(S.native, ["ov_tfu %d %d %d %d %d" % (vals["now"], vals["last"], vals["shift"], f64_bits(ppm), vals["t1"])])[0]
    if out == "PANIC":
        return True, "native panic"
    reading = int(out)
    p = Fraction(struct.unpack("<d", struct.pack("<d", float(ppm)))[0])
    el = vals["t1"] - vals["last"]
    ideal = Fraction(vals["t1"] + vals["shift"]) + Fraction(el) * p / 1000000
    err = abs(Fraction(reading) - ideal)
    bound = 3 + Fraction(el, 8589934592000000)
    return (err > bound), "native reading=%d ideal=%s error=%s units (bound %s), elapsed=%d ppm=%r" % (reading, float(ideal), float(err), float(bound), el, ppm)


def o_now(S, qdir):
    oid = "c18_now_is_reading_of_underlying"
    ctx, ex = S.new()
    declare_state(ctx)
    clk = mk_clock("now", "last", "shift", "ppm")
    a_s = run_method(S, ctx, ex, "now", clk, [])
    b_s = run_method(S, ctx, ex, "time_from_underlying", clk, [OB.mk_time("now")])
    rng = state_ranges(ctx) + ["(> (+ last shift) %d)" % (10 * NS * TWO32)]
    disj, reach = [], []
    for a in a_s:
        for b in b_s:
            pc = OB.AND(a.pc + b.pc)
            if a.kind == "ret" and b.kind == "ret":
                disj.append(OB.AND([pc, "(not (= %s %s))" % (OB.bits(a.value), OB.bits(b.value))]))
                reach.append(pc)
            elif a.kind != b.kind:
                disj.append(pc)
    q1 = OB.check(qdir, oid + ".goal", OB.script(ctx, rng + [OB.OR(disj)]), "unsat", 180, produce_model=True, get_values=["now", "last", "shift", "ppm"])
    q2 = OB.check(qdir, oid + ".reach", OB.script(ctx, rng + [OB.OR(reach)]), "sat", 180)
    return [q1, q2], ctx


# ------------------------------------------------------------------------------------------ native replay
def f64_bits(x):
    return struct.unpack("<Q", struct.pack("<d", float(x)))[0]


def parse_real(model, name):
    txt = model.replace("\n", " ")
    i = txt.find("(" + name + " ")
    if i < 0:
        return None
    j = i + len(name) + 2
    # balanced s-expression or atom starting at j
    while txt[j] == " ":
        j += 1
    if txt[j] == "(":
        depth, k = 0, j
        while True:
            if txt[k] == "(":
                depth += 1
            elif txt[k] == ")":
                depth -= 1
                if depth == 0:
                    break
            k += 1
        t = txt[j:k + 1]
    else:
        k = j
        while txt[k] not in " )":
            k += 1
        t = txt[j:k]
    from fractions import Fraction

    def ev(s):
        s = s.strip()
        if s.startswith("("):
            toks = re.findall(r"\((?:[^()]|\([^()]*\))*\)|[^\s()]+", s[1:-1])
            op, args = toks[0], [ev(x) for x in toks[1:]]
            if op == "-":
                return -args[0] if len(args) == 1 else args[0] - args[1]
            if op == "/":
                return args[0] / args[1]
            if op == "+":
                return sum(args)
            if op == "*":
                return args[0] * args[1]
            raise ValueError(op)
        return Fraction(s)
    try:
        return float(ev(t))
    except Exception:
        return None


def replay_step(S, model):
    vals = OB.model_values(model, ["now", "last", "shift", "off"])
    ppm = parse_real(model, "ppm")
    if vals is None or ppm is None:
        return None, "model not parsed"
    pb = f64_bits(ppm)
    base = "%d %d %d %d" % (vals["now"], vals["last"], vals["shift"], pb)
    out = OB.native_eval(S.native, ["ov_tfu %s %d" % (base, vals["now"]), "ov_step %s %d" % (base, vals["off"])])
    if "PANIC" in out:
        return True, "native panic: %s" % out
    before = int(out[0])
    ret, nl, ns = [int(x) for x in out[1].split()]
    after = OB.native_eval(S.native, ["ov_tfu %d %d %d %d %d" % (vals["now"], nl, ns, pb, vals["now"])])[0]
    if after == "PANIC":
        return True, "native panic after step"
    jump = int(after) - before
    ok = jump == vals["off"] and ret == int(after)
    return (not ok), "native: reading before=%d after=%d jump=%d requested=%d returned=%d (ppm=%r)" % (before, int(after), jump, vals["off"], ret, ppm)


def replay_setfreq(S, model):
    vals = OB.model_values(model, ["now", "last", "shift"])
    ppm, ppm2 = parse_real(model, "ppm"), parse_real(model, "ppm2")
    if vals is None or ppm is None or ppm2 is None:
        return None, "model not parsed"
    base = "%d %d %d %d" % (vals["now"], vals["last"], vals["shift"], f64_bits(ppm))
    out = OB.native_eval(S.native, ["ov_tfu %s %d" % (base, vals["now"]), "ov_setfreq %s %d" % (base, f64_bits(ppm2))])
    if "PANIC" in out:
        return True, "native panic: %s" % out
    before = int(out[0])
    ret, nl, ns = [int(x) for x in out[1].split()]
    after = OB.native_eval(S.native, ["ov_tfu %d %d %d %d %d" % (vals["now"], nl, ns, f64_bits(ppm2), vals["now"])])[0]
    ok = after != "PANIC" and ret == before and int(after) == ret
    return (not ok), "native: before=%d returned=%d after=%s" % (before, ret, after)


# ------------------------------------------------------------------------------------------ registration
def build():
    O = []
    mk = OB.Obl
    O.append(mk("c18_now_is_reading_of_underlying", ["C18"], "quick",
                "OverlayClock::now() == time_from_underlying(underlying.now()) for every state in range",
                o_now, ["OverlayClock::now", "OverlayClock::time_from_underlying"]))
    O.append(mk("c18_set_frequency_continuous", ["C18"], "quick",
                "for every state (underlying time anywhere in the PTP range, elapsed <= 10^4 s, |shift| < 2^63 ns, ppm in [-500, 500]) and every new ppm in [-500, 500]: "
                "the time set_frequency returns == the reading just before == the reading just after, at the same underlying instant",
                o_set_frequency_continuous, ["OverlayClock::set_frequency", "OverlayClock::time_from_underlying", "Mul<f64> for Duration", "Div<i32> for Duration"],
                ["f64 ppm is abstracted by its real value; the f64 -> I96F32 conversion is modelled as round-to-nearest within 1/2 ulp of the fixed format"]))
    O.append(mk("c18_step_clock_exact", ["C18"], "quick",
                "for every state and every offset within +-10 s: reading just after step_clock(offset) - reading just before == offset exactly, and the returned time is the reading after",
                o_step_exact, ["OverlayClock::step_clock", "OverlayClock::time_from_underlying"],
                ["reading at least 20 s above zero (so a -10 s step cannot underflow)"]))
    O.append(mk("c18_rate_exact_at_zero_ppm", ["C18"], "quick",
                "with ppm == 0: reading(t2) - reading(t1) == t2 - t1 exactly for last_sync <= t1 <= t2 within 10^4 s",
                o_rate_unity, ["OverlayClock::time_from_underlying"]))
    O.append(mk("c18_rate_within_rounding", ["C18"], "quick",
                "between adjustments reading(t) == t + shift + (t - last_sync) * ppm / 10^6 up to 3 units of 2^-32 ns plus the ppm conversion error (2^-33 per unit of elapsed/10^6)",
                o_rate_bound, ["OverlayClock::time_from_underlying", "Mul<f64> for Duration", "Div<i32> for Duration"],
                ["nonlinear (elapsed x ppm): if either solver answers unknown/timeout the obligation is reported undischarged"]))
    return O


def lattice():
    pp = [0.0, 1.0, -1.0, 12.5, -500.0, 500.0, 0.001, 123.456]
    cases = []
    nowv = [1700000000 * NS * TWO32 + 0x12345678, 5 * NS * TWO32, (1 << 47) * NS * TWO32]
    for now in nowv:
        for el in (0, 1, NS * TWO32, 9999 * NS * TWO32 + 77):
            last = now - el
            if last < 0:
                continue
            for shift in (0, 37 * NS * TWO32 + 5, -(2 * NS * TWO32) - 9):
                for p in pp[:6]:
                    pb = f64_bits(p)
                    base = [now, last, shift, pb]
                    cases.append(("ov_tfu", base + [now]))
                    cases.append(("ov_setfreq", base + [f64_bits(-p / 2 + 1.0)]))
                    cases.append(("ov_step", base + [3 * NS * TWO32 + 1]))
                    cases.append(("ov_step", base + [-(NS * TWO32) - 3]))
    return cases


def validate(S, native, qdir, log):
    """differential validation of the overlay encoding: concrete states through native code and encoding.
    The encoding abstracts f64 by reals, so results may differ by the stated rounding slack; exact equality is
    required whenever ppm == 0 or elapsed == 0, and |difference| <= 4 units otherwise."""
    cases = lattice()
    nat = OB.native_eval(native, ["%s %s" % (op, " ".join(str(a) for a in args)) for op, args in cases])
    mism = []
    n = 0
    lines = ["(set-logic ALL)", "(set-option :produce-models true)"]
    wants = []
    for (op, args), nres in zip(cases, nat):
        ctx, ex = S.new()
        now, last, shift, pb = args[:4]
        ppm = struct.unpack("<d", struct.pack("<Q", pb))[0]
        from fractions import Fraction
        fr = Fraction(ppm)
        ppm_t = "(/ %s %d.0)" % (("%d.0" % fr.numerator) if fr.numerator >= 0 else "(- %d.0)" % (-fr.numerator), fr.denominator)
        clk = mk_clock(lit(now), lit(last), lit(shift), ppm_t)
        try:
            if op == "ov_tfu":
                outs = run_method(S, ctx, ex, "time_from_underlying", clk, [OB.mk_time(lit(args[4]))])
                terms = lambda o: [OB.bits(o.value)]
            elif op == "ov_setfreq":
                p2 = struct.unpack("<d", struct.pack("<Q", args[4]))[0]
                f2 = Fraction(p2)
                p2t = "(/ %s %d.0)" % (("%d.0" % f2.numerator) if f2.numerator >= 0 else "(- %d.0)" % (-f2.numerator), f2.denominator)
                outs = run_method(S, ctx, ex, "set_frequency", clk, [F64(p2t)])
                terms = lambda o: [OB.bits(o.value), OB.bits(final_clock(o).fields[1]), OB.bits(final_clock(o).fields[2])]
            else:
                outs = run_method(S, ctx, ex, "step_clock", clk, [OB.mk_dur(lit(args[4]))])
                terms = lambda o: [OB.bits(o.value), OB.bits(final_clock(o).fields[1]), OB.bits(final_clock(o).fields[2])]
        except Unsupported as e:
            # the obligations that execute this method report the unmodelled construct themselves
            continue
        rets = [o for o in outs if o.kind == "ret"]
        lines.append("(push)")
        lines += ctx.decls
        lines += ["(assert %s)" % d for d in ctx.defs]
        # the encoding is a relation (f64 conversion slack): ask whether the native result is *admitted* by it
        if nres == "PANIC":
            lines.append("(assert %s)" % OB.OR([OB.AND(o.pc) for o in outs if o.kind != "ret"]))
        else:
            nv = [int(x) for x in nres.split()]
            alts = []
            for o in rets:
                ts = terms(o)
                exact = (ppm == 0.0 or now == last) and op != "ov_step"
                conds = []
                for t, v in zip(ts, nv):
                    if exact or op == "ov_step":
                        # step: the encoding follows the same f64 ops only approximately (reciprocal): allow slack there
                        conds.append("(= %s %s)" % (t, lit(v)) if exact else "(<= (abs (- %s %s)) 64)" % (t, lit(v)))
                    else:
                        conds.append("(<= (abs (- %s %s)) 4)" % (t, lit(v)))
                alts.append(OB.AND(o.pc + conds))
            lines.append("(assert %s)" % OB.OR(alts))
        lines += ["(check-sat)", "(pop)"]
        wants.append((op, args, nres))
        n += 1
    path = os.path.join(qdir, "validate_overlay.smt2")
    with open(path, "w") as fh:
        fh.write("\n".join(lines) + "\n")
    import subprocess
    p = subprocess.run(["/usr/bin/z3", "-T:600", path], stdout=subprocess.PIPE, stderr=subprocess.STDOUT, text=True)
    if "(error" in p.stdout:
        raise RuntimeError("overlay validation: solver error " + p.stdout[p.stdout.index("(error"):][:300])
    verdicts = [l.strip() for l in p.stdout.splitlines() if l.strip() in ("sat", "unsat", "unknown")]
    if len(verdicts) != len(wants):
        raise RuntimeError("overlay validation: %d verdicts for %d cases" % (len(verdicts), len(wants)))
    for w, v in zip(wants, verdicts):
        if v != "sat":
            mism.append(((w[0], tuple(w[1])), "native result %s not admitted by the encoding (%s)" % (w[2], v)))
    return n, mism
