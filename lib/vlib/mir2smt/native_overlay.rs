//! Native evaluation of OverlayClock operations from an explicit state (child of `overlay_clock`).
use std::prelude::v1::*;
use std::format;
use fixed::types::{I96F32, U96F32};

use super::OverlayClock;
use crate::time::{Duration, Time};
use crate::Clock;

pub struct Fixed(pub Time);
impl Clock for Fixed {
    type Error = ();
    fn now(&self) -> Time {
        self.0
    }
    fn step_clock(&mut self, _o: Duration) -> Result<Time, ()> {
        Ok(self.0)
    }
    fn set_frequency(&mut self, _p: f64) -> Result<Time, ()> {
        Ok(self.0)
    }
    fn set_properties(&mut self, _t: &crate::config::TimePropertiesDS) -> Result<(), ()> {
        Ok(())
    }
}

fn t(bits: i128) -> Time {
    Time::from_fixed_nanos(U96F32::from_bits(bits as u128))
}
fn d(bits: i128) -> Duration {
    Duration::from_fixed_nanos(I96F32::from_bits(bits))
}

/// args: now(roclock) last_sync shift ppm_f64_bits [extra]
pub fn eval(op: &str, a: &[i128]) -> String {
    let mut c = OverlayClock { roclock: Fixed(t(a[0])), last_sync: t(a[1]), shift: d(a[2]), freq_scale_ppm_diff: f64::from_bits(a[3] as u64) };
    match op {
        // reading for underlying time a[4]
        "ov_tfu" => c.time_from_underlying(t(a[4])).nanos().to_bits().to_string(),
        // set_frequency(ppm = f64 bits a[4]) -> returned time, new last_sync, new shift
        "ov_setfreq" => {
            let r = c.set_frequency(f64::from_bits(a[4] as u64)).unwrap();
            format!("{} {} {}", r.nanos().to_bits(), c.last_sync.nanos().to_bits(), c.shift.nanos().to_bits())
        }
        // step_clock(offset bits a[4])
        "ov_step" => {
            let r = c.step_clock(d(a[4])).unwrap();
            format!("{} {} {}", r.nanos().to_bits(), c.last_sync.nanos().to_bits(), c.shift.nanos().to_bits())
        }
        _ => "UNKNOWN".to_string(),
    }
}
