"""Summaries of the `fixed` / `az` / `core` callees reached from statime's time arithmetic, and the
resolution of calls into statime's own functions (which are executed from their MIR).

Every summary returns a list of (state, value, None) or (state, None, (kind, reason)) where kind is
'overflow' (the operation panics in a debug build and wraps in a release build) or 'panic'
(panics in every build). Trusted base of engine M; validated by differential concrete execution.
"""
import re
from .engine import Int, Fx, Bool, F64, Struct, Tup, Opt, Ref, Enum, UNIT, Unsupported, in_range, lit, rng, parse_fx, parse_int, is_const_int, const_val

TYPE_FILE = {
    "Time": "time/instant.rs",
    "Duration": "time/duration.rs",
    "TimeInterval": "datastructures/common/time_interval.rs",
    "WireTimestamp": "datastructures/common/timestamp.rs",
    "Interval": "time/interval.rs",
    "OverlayClock": "overlay_clock.rs",
}


def fork_overflow(ex, st, exact_term, signed, bits, what, mk):
    """exact result in range -> value ; else overflow outcome"""
    ok = in_range(exact_term, signed, bits)
    good = st.fork(ok)
    bad = st.fork("(not %s)" % ok)
    return [(good, mk(exact_term), None), (bad, None, ("overflow", what))]


def s_to_fixed(ex, st, args, m):
    src = m.group(1)
    dst = parse_fx(m.group(2))
    v = ex.deref(st, args[0])
    dsg, dbits, dfrac = dst
    if isinstance(v, Int):
        exact = "(* %s %d)" % (v.term, 1 << dfrac)
    elif isinstance(v, Fx):
        if dfrac >= v.frac:
            exact = "(* %s %d)" % (v.term, 1 << (dfrac - v.frac))
        else:
            q, _r = ex.ctx.floordiv_const(v.term, 1 << (v.frac - dfrac))
            exact = q
    elif isinstance(v, F64):
        # round to nearest (ties to even not modelled: |p - x*2^f| <= 1/2)
        if not hasattr(ex.ctx, "fxconv"):
            ex.ctx.fxconv = {}
        key = (v.term, dfrac)
        if key in ex.ctx.fxconv:
            p = ex.ctx.fxconv[key]
            return fork_overflow(ex, st, p, dsg, dbits, "to_fixed out of range of the target type", lambda t: Fx(t, dsg, dbits, dfrac))
        p = ex.ctx.fresh("fx")
        ex.ctx.fxconv[key] = p
        ex.ctx.defs.append("(and (<= (- (* 2.0 (* %s %d.0)) 1.0) (* 2.0 (to_real %s))) (<= (* 2.0 (to_real %s)) (+ (* 2.0 (* %s %d.0)) 1.0)))"
                           % (v.term, 1 << dfrac, p, p, v.term, 1 << dfrac))
        exact = p
    else:
        raise Unsupported("to_fixed of %r" % (v,))
    return fork_overflow(ex, st, exact, dsg, dbits, "to_fixed out of range of the target type", lambda t: Fx(t, dsg, dbits, dfrac))


def s_fx_binop(op):
    def f(ex, st, args, m):
        a, b = ex.deref(st, args[0]), ex.deref(st, args[1])
        if not (isinstance(a, Fx) and isinstance(b, Fx)):
            raise Unsupported("fixed %s on %r %r" % (op, a, b))
        sg, bits, frac = a.signed, a.bits, a.frac
        mk = lambda t: Fx(t, sg, bits, frac)
        if op == "add":
            return fork_overflow(ex, st, "(+ %s %s)" % (a.term, b.term), sg, bits, "fixed-point addition overflow", mk)
        if op == "sub":
            return fork_overflow(ex, st, "(- %s %s)" % (a.term, b.term), sg, bits, "fixed-point subtraction overflow", mk)
        if op == "mul":
            prod = "(* %s %s)" % (a.term, b.term)
            q, _r = ex.ctx.floordiv_const(prod, 1 << frac)
            return fork_overflow(ex, st, q, sg, bits, "fixed-point multiplication overflow", mk)
        if op == "div":
            num = "(* %s %d)" % (a.term, 1 << frac)
            if is_const_int(b.term):
                c = const_val(b.term)
                if c == 0:
                    return [(st, None, ("panic", "division by zero"))]
                if not sg and c > 0:
                    q, _r = ex.ctx.floordiv_const(num, c)
                else:
                    q, _r = ex.ctx.truncdiv_const(num, c)
                return fork_overflow(ex, st, q, sg, bits, "fixed-point division overflow", mk)
            q, _r = ex.ctx.truncdiv_sym(num, b.term)
            zero = st.fork("(= %s 0)" % b.term)
            nz = st.fork("(not (= %s 0))" % b.term)
            return [(zero, None, ("panic", "division by zero"))] + fork_overflow(ex, nz, q, sg, bits, "fixed-point division overflow", mk)
        if op == "rem":
            if is_const_int(b.term):
                c = const_val(b.term)
                if c == 0:
                    return [(st, None, ("panic", "division by zero"))]
                if not sg and c > 0:
                    _q, r = ex.ctx.floordiv_const(a.term, c)
                else:
                    _q, r = ex.ctx.truncdiv_const(a.term, c)
                return [(st, mk(r), None)]
            _q, r = ex.ctx.truncdiv_sym(a.term, b.term)
            zero = st.fork("(= %s 0)" % b.term)
            nz = st.fork("(not (= %s 0))" % b.term)
            return [(zero, None, ("panic", "division by zero")), (nz, mk(r), None)]
        raise Unsupported(op)
    return f


def s_fx_neg(ex, st, args, m):
    a = ex.deref(st, args[0])
    return fork_overflow(ex, st, "(- %s)" % a.term, a.signed, a.bits, "fixed-point negation overflow", lambda t: Fx(t, a.signed, a.bits, a.frac))


def s_fx_abs(ex, st, args, m):
    a = ex.deref(st, args[0])
    return fork_overflow(ex, st, "(abs %s)" % a.term, a.signed, a.bits, "fixed-point abs overflow", lambda t: Fx(t, a.signed, a.bits, a.frac))


def s_fx_round_like(kind):
    def f(ex, st, args, m):
        a = ex.deref(st, args[0])
        one = 1 << a.frac
        if kind == "floor":
            q, _r = ex.ctx.floordiv_const(a.term, one)
            exact = "(* %s %d)" % (q, one)
        elif kind == "ceil":
            q, _r = ex.ctx.floordiv_const("(+ %s %d)" % (a.term, one - 1), one)
            exact = "(* %s %d)" % (q, one)
        else:  # round: nearest, ties away from zero
            q, _r = ex.ctx.floordiv_const("(+ (abs %s) %d)" % (a.term, one // 2), one)
            exact = "(ite (< %s 0) (- (* %s %d)) (* %s %d))" % (a.term, q, one, q, one)
        return fork_overflow(ex, st, exact, a.signed, a.bits, "fixed-point %s overflow" % kind, lambda t: Fx(t, a.signed, a.bits, a.frac))
    return f


def s_fx_sat_wrap(op, mode):
    def f(ex, st, args, m):
        a, b = ex.deref(st, args[0]), ex.deref(st, args[1])
        exact = "(%s %s %s)" % ("+" if op == "add" else "-", a.term, b.term)
        lo, hi = rng(a.signed, a.bits)
        if mode == "saturating":
            t = "(ite (< %s %s) %s (ite (> %s %s) %s %s))" % (exact, lit(lo), lit(lo), exact, lit(hi), lit(hi), exact)
            return [(st, Fx(t, a.signed, a.bits, a.frac), None)]
        if mode == "checked":
            return [(st, Opt(in_range(exact, a.signed, a.bits), Fx(exact, a.signed, a.bits, a.frac)), None)]
        # wrapping
        q, r = ex.ctx.floordiv_const("(- %s %s)" % (exact, lit(lo)), 1 << a.bits)
        return [(st, Fx("(+ %s %s)" % (r, lit(lo)), a.signed, a.bits, a.frac), None)]
    return f


def s_fx_unsigned_abs(ex, st, args, m):
    a = ex.deref(st, args[0])
    return [(st, Fx("(abs %s)" % a.term, False, a.bits, a.frac), None)]


def s_fx_is_negative(ex, st, args, m):
    a = ex.deref(st, args[0])
    return [(st, Bool("(< %s 0)" % a.term), None)]


def s_fx_to_bits(ex, st, args, m):
    a = ex.deref(st, args[0])
    return [(st, Int(a.term, a.signed, a.bits), None)]


def s_fx_from_bits(ex, st, args, m):
    fx = parse_fx(m.group(0))
    a = ex.deref(st, args[0])
    return [(st, Fx(a.term, fx[0], fx[1], fx[2]), None)]


def s_fx_frac(ex, st, args, m):
    a = ex.deref(st, args[0])
    if a.signed:
        raise Unsupported("frac of a signed fixed")
    _q, r = ex.ctx.floordiv_const(a.term, 1 << a.frac)
    return [(st, Fx(r, a.signed, a.bits, a.frac), None)]


def s_fx_to_num(ex, st, args, m):
    sg, bits = parse_int(m.group(1))
    a = ex.deref(st, args[0])
    q, _r = ex.ctx.floordiv_const(a.term, 1 << a.frac)
    return fork_overflow(ex, st, q, sg, bits, "to_num out of range of the target integer", lambda t: Int(t, sg, bits))


def s_fx_saturating_to_num(ex, st, args, m):
    sg, bits = parse_int(m.group(1))
    a = ex.deref(st, args[0])
    q, _r = ex.ctx.floordiv_const(a.term, 1 << a.frac)
    lo, hi = rng(sg, bits)
    return [(st, Int("(ite (< %s %s) %s (ite (> %s %s) %s %s))" % (q, lit(lo), lit(lo), q, lit(hi), lit(hi), q), sg, bits), None)]


def s_int_widen(ex, st, args, m):
    """lossless integer widening through From / Into: the value is unchanged (std only implements
    these impls where every source value fits the target)"""
    src, tgt = (m.group(1), m.group(2)) if m.group(0).endswith("into") else (m.group(2), m.group(1))
    a = ex.deref(st, args[0])
    s_, t_ = parse_int(src), parse_int(tgt)
    if not s_ or not t_:
        raise Unsupported("integer From/Into %s -> %s" % (src, tgt))
    lo, hi = rng(*s_)
    tlo, thi = rng(*t_)
    if lo < tlo or hi > thi:
        raise Unsupported("integer From/Into %s -> %s is not a widening" % (src, tgt))
    return [(st, Int(a.term, t_[0], t_[1]), None)]


def s_lossy_into(ex, st, args, m):
    a = ex.deref(st, args[0])
    tgt = m.group(1)
    fx = parse_fx(tgt)
    if fx:
        sg, bits, frac = fx
        if frac >= a.frac:
            t = "(* %s %d)" % (a.term, 1 << (frac - a.frac))
        else:
            t, _r = ex.ctx.floordiv_const(a.term, 1 << (a.frac - frac))
        # lossy_into is only implemented where the integer part always fits
        return [(st, Fx(t, sg, bits, frac), None)]
    it = parse_int(tgt)
    if it:
        q, _r = ex.ctx.floordiv_const(a.term, 1 << a.frac)
        return [(st, Int(q, it[0], it[1]), None)]
    if tgt.strip() == "f64":
        x = ex.ctx.fresh("f", "Real")
        # value within one double rounding of bits / 2^frac : relative error 2^-53
        exact = "(/ (to_real %s) %d.0)" % (a.term, 1 << a.frac)
        ex.ctx.defs.append("(<= (* 9007199254740992.0 (abs (- %s %s))) (abs %s))" % (x, exact, exact))
        return [(st, F64(x), None)]
    raise Unsupported("lossy_into<%s>" % tgt)


def s_lossless_try_into(ex, st, args, m):
    a = ex.deref(st, args[0])
    sg, bits, frac = parse_fx(m.group(1))
    if frac < a.frac:
        raise Unsupported("lossless_try_into that loses fraction bits")
    t = "(* %s %d)" % (a.term, 1 << (frac - a.frac))
    return [(st, Opt(in_range(t, sg, bits), Fx(t, sg, bits, frac)), None)]


def s_option_unwrap(ex, st, args, m):
    o = ex.deref(st, args[0])
    some = st.fork(o.is_some)
    none = st.fork("(not %s)" % o.is_some)
    return [(some, o.payload, None), (none, None, ("panic", "called `Option::unwrap()` on a `None` value"))]


def s_clock_now(ex, st, args, m):
    c = ex.deref(st, args[0])
    # the underlying clock is modelled as a struct whose field 0 is the reading returned by now()
    return [(st, c.fields[0], None)]


def s_statime(ex, st, args, m):
    """call into a statime function: resolve in the MIR dump and execute it"""
    callee = m.group(0)
    # <Type as Trait<Rhs>>::method   |   Type::method::<G>   |  path::Type::method
    mm = re.match(r"^<([\w:]+)(?:<.*?>)? as (\w+)(?:<(.*)>)?>::(\w+)", callee)
    if mm:
        ty, trait, rhs, meth = mm.group(1).split("::")[-1], mm.group(2), mm.group(3), mm.group(4)
        if trait == "From":
            # impl From<X> for ty lives with ty ... except statime puts From<Duration> for TimeInterval in time_interval.rs etc.
            pass
        file = TYPE_FILE.get(ty)
        if file is None:
            raise Unsupported("unknown statime type `%s` in call `%s`" % (ty, callee))
        second = None
        if rhs:
            second = rhs.split("::")[-1]
            second = re.sub(r"<.*", "", second)
        elif trait in ("Add", "Sub", "Mul", "Div", "Rem") and len(args) == 2:
            second = ty
        if trait in ("Mul", "Div") and second in ("TF", "f64", "i32", "i64", "u16", "u32"):
            f = ex.ctx.mir.find(file, meth, nparams=len(args), first_param=ty)
        else:
            f = ex.ctx.mir.find(file, meth, nparams=len(args), first_param=ty if trait != "From" else None, second_param=second if len(args) > 1 else None)
        return ex.inline(st, f, args)
    mm = re.match(r"^(?:[\w]+::)*(\w+)(?:::<.*?>)?::(\w+)(?:::<.*>)?$", callee)
    if mm:
        ty, meth = mm.group(1), mm.group(2)
        file = TYPE_FILE.get(ty)
        if file is None:
            raise Unsupported("unknown statime type `%s` in call `%s`" % (ty, callee))
        f = ex.ctx.mir.find(file, meth, nparams=len(args))
        return ex.inline(st, f, args)
    raise Unsupported("cannot resolve call `%s`" % callee)


FXT = r"Fixed[IU]\d+(?:::)?<U\d+>"

SUMMARIES = [
    (r"^<(\w+) as ToFixed>::to_fixed::<(" + FXT + r")>$", s_to_fixed),
    (r"^<(" + FXT + r") as ToFixed>::to_fixed::<(" + FXT + r")>$", s_to_fixed),
    (r"^<(f64) as Az>::az::<(" + FXT + r")>$", s_to_fixed),
    (r"^<" + FXT + r" as Add>::add$", s_fx_binop("add")),
    (r"^<" + FXT + r" as Sub>::sub$", s_fx_binop("sub")),
    (r"^<" + FXT + r" as Mul>::mul$", s_fx_binop("mul")),
    (r"^<" + FXT + r" as Div>::div$", s_fx_binop("div")),
    (r"^<" + FXT + r" as Rem>::rem$", s_fx_binop("rem")),
    (r"^<" + FXT + r" as Neg>::neg$", s_fx_neg),
    (r"^" + FXT + r"::abs$", s_fx_abs),
    (r"^" + FXT + r"::unsigned_abs$", s_fx_unsigned_abs),
    (r"^" + FXT + r"::round$", s_fx_round_like("round")),
    (r"^" + FXT + r"::floor$", s_fx_round_like("floor")),
    (r"^" + FXT + r"::ceil$", s_fx_round_like("ceil")),
    (r"^" + FXT + r"::saturating_add$", s_fx_sat_wrap("add", "saturating")),
    (r"^" + FXT + r"::saturating_sub$", s_fx_sat_wrap("sub", "saturating")),
    (r"^" + FXT + r"::wrapping_add$", s_fx_sat_wrap("add", "wrapping")),
    (r"^" + FXT + r"::wrapping_sub$", s_fx_sat_wrap("sub", "wrapping")),
    (r"^" + FXT + r"::checked_add$", s_fx_sat_wrap("add", "checked")),
    (r"^" + FXT + r"::checked_sub$", s_fx_sat_wrap("sub", "checked")),
    (r"^" + FXT + r"::is_negative$", s_fx_is_negative),
    (r"^" + FXT + r"::to_bits$", s_fx_to_bits),
    (r"^" + FXT + r"::from_bits$", s_fx_from_bits),
    (r"^" + FXT + r"::frac$", s_fx_frac),
    (r"^" + FXT + r"::to_num::<(\w+)>$", s_fx_to_num),
    (r"^" + FXT + r"::saturating_to_num::<(\w+)>$", s_fx_saturating_to_num),
    (r"^<" + FXT + r" as LossyInto<(.*)>>::lossy_into$", s_lossy_into),
    (r"^<([iu]\d+|[iu]size) as Into<([iu]\d+|[iu]size)>>::into$", s_int_widen),
    (r"^<([iu]\d+|[iu]size) as From<([iu]\d+|[iu]size)>>::from$", s_int_widen),
    (r"^<" + FXT + r" as LosslessTryInto<(" + FXT + r")>>::lossless_try_into$", s_lossless_try_into),
    (r"^core::option::Option::<.*>::unwrap$", s_option_unwrap),
    (r"^<C as Clock>::now$", s_clock_now),
    (r"^<(?:Time|duration::Duration|time_interval::TimeInterval|timestamp::WireTimestamp|OverlayClock<C>) as \w+(?:<.*>)?>::\w+$", s_statime),
    (r"^(?:\w+::)*(?:Time|Duration|TimeInterval|WireTimestamp|OverlayClock)(?:::<.*?>)?::\w+(?:::<.*>)?$", s_statime),
]
