"""Engine M obligations: C16 (time arithmetic) and C18 (overlay clock)."""
import os, re, subprocess, time, json, shutil
from .engine import Mir, Ctx, Exec, Int, Fx, Bool, F64, Struct, Tup, Opt, Ref, UNIT, Unsupported, in_range, lit
from .summaries import SUMMARIES
from .. import overlay

HERE = os.path.dirname(os.path.abspath(__file__))
VERIF = os.path.dirname(os.path.dirname(os.path.dirname(HERE)))

TRUSTED_BASE = [
    "engine M: rustc nightly MIR (-Zunpretty=mir, overflow-checks=on) of statime's own functions is executed symbolically; "
    "the `fixed`/`az`/`core` callees are summarised over mathematical integers with explicit machine ranges (lib/vlib/mir2smt/summaries.py)",
    "the summaries and the translator are validated on every run by differential concrete execution against the natively compiled "
    "functions (dev profile) on a boundary lattice; a mismatch makes the run inconclusive",
    "z3 4.8.12 and cvc5 1.0.3 must agree on every query; unknown / timeout / error output is inconclusive, never 'holds'",
]

NS = 1_000_000_000
T_MAX_BITS = (1 << 48) * NS * (1 << 32)          # [0, 2^48 s) in 2^-32 ns
STUB_MAX_BITS = (1 << 64) * NS * (1 << 32)       # precondition of the K-engine contract stub
D63 = (1 << 63) * (1 << 32)                      # +-2^63 ns in 2^-32 ns


def AND(xs):
    xs = [x for x in xs if x != "true"]
    if not xs:
        return "true"
    if len(xs) == 1:
        return xs[0]
    return "(and %s)" % " ".join(xs)


def OR(xs):
    if not xs:
        return "false"
    if len(xs) == 1:
        return xs[0]
    return "(or %s)" % " ".join(xs)


# ------------------------------------------------------------------------------------------ values
def mk_time(term):
    return Struct("Time", [Fx(term, False, 128, 32)])


def mk_dur(term):
    return Struct("Duration", [Fx(term, True, 128, 32)])


def mk_ti(term):
    return Struct("TimeInterval", [Fx(term, True, 64, 16)])


def mk_wire(s, n):
    return Struct("WireTimestamp", [Int(s, False, 64), Int(n, False, 32)])


def bits(v):
    """raw bits term of a Time / Duration / TimeInterval / Fx / Int"""
    while isinstance(v, Struct):
        v = v.fields[0]
    return v.term


class Session:
    def __init__(self, mir, log):
        self.mir = mir
        self.log = log

    def new(self):
        ctx = Ctx(self.mir)
        return ctx, Exec(ctx, SUMMARIES)

    def f(self, file, name, **kw):
        return self.mir.find(file, name, **kw)


INSTANT = "time/instant.rs"
DURATION = "time/duration.rs"
TIMEINT = "datastructures/common/time_interval.rs"
TIMESTAMP = "datastructures/common/timestamp.rs"
OVERLAY = "overlay_clock.rs"


# ------------------------------------------------------------------------------------------ operations (shared by obligations and validation)
def op_table(S):
    """op -> (function, builder(argterms)->arg values, extractor(value)->[terms])"""
    t1 = lambda a: [Ref(("in", 0))]
    T = {}

    def add(op, func, build, extract, store=None):
        T[op] = (func, build, extract, store)

    bt = lambda v: [bits(v)]
    add("secs", S.f(INSTANT, "secs"), lambda a: [mk_time(a[0])], lambda v: [v.term])
    add("subsec", S.f(INSTANT, "subsec_nanos"), lambda a: [mk_time(a[0])], lambda v: [v.term])
    add("subnano", S.f(INSTANT, "subnano"), lambda a: [mk_time(a[0])], bt)
    add("wire2time", S.f(INSTANT, "from", first_param="WireTimestamp"), lambda a: [mk_wire(a[0], a[1])], bt)
    add("time2wire", S.f(TIMESTAMP, "from", first_param="Time"), lambda a: [mk_time(a[0])], lambda v: [v.fields[0].term, v.fields[1].term])
    add("tadd", S.f(INSTANT, "add", first_param="Time", second_param="Duration"), lambda a: [mk_time(a[0]), mk_dur(a[1])], bt)
    add("tsub", S.f(INSTANT, "sub", first_param="Time", second_param="Duration"), lambda a: [mk_time(a[0]), mk_dur(a[1])], bt)
    add("tdiff", S.f(INSTANT, "sub", first_param="Time", second_param="Time"), lambda a: [mk_time(a[0]), mk_time(a[1])], bt)
    add("ti2dur", S.f(DURATION, "from", first_param="TimeInterval"), lambda a: [mk_ti(a[0])], bt)
    add("dur2ti", S.f(TIMEINT, "from", first_param="Duration"), lambda a: [mk_dur(a[0])], bt)
    add("dneg", S.f(DURATION, "neg"), lambda a: [mk_dur(a[0])], bt)
    add("dadd", S.f(DURATION, "add", first_param="Duration", second_param="Duration"), lambda a: [mk_dur(a[0]), mk_dur(a[1])], bt)
    add("dsub", S.f(DURATION, "sub", first_param="Duration", second_param="Duration"), lambda a: [mk_dur(a[0]), mk_dur(a[1])], bt)
    add("dabs", S.f(DURATION, "abs"), lambda a: [mk_dur(a[0])], bt)
    add("dmul_i32", S.f(DURATION, "mul", first_param="Duration"), lambda a: [mk_dur(a[0]), Int(a[1], True, 32)], bt)
    add("ddiv_i32", S.f(DURATION, "div", first_param="Duration"), lambda a: [mk_dur(a[0]), Int(a[1], True, 32)], bt)
    add("dsecs", S.f(DURATION, "secs"), lambda a: [mk_dur(a[0])], lambda v: [v.term])
    add("dfrom_secs", S.f(DURATION, "from_secs"), lambda a: [Int(a[0], True, 64)], bt)
    add("dfrom_millis", S.f(DURATION, "from_millis"), lambda a: [Int(a[0], True, 64)], bt)
    add("dfrom_micros", S.f(DURATION, "from_micros"), lambda a: [Int(a[0], True, 64)], bt)
    add("dfrom_nanos", S.f(DURATION, "from_nanos"), lambda a: [Int(a[0], True, 64)], bt)
    add("tfrom_secs", S.f(INSTANT, "from_secs"), lambda a: [Int(a[0], False, 64)], bt)
    add("tfrom_nanos_subnanos", S.f(INSTANT, "from_nanos_subnanos"), lambda a: [Int(a[0], False, 64), Int(a[1], False, 32)], bt)
    return T


def run_op(S, ctx, ex, T, op, argterms):
    func, build, extract, _ = T[op]
    outs = ex.run(func, build(argterms))
    return outs, extract


# ------------------------------------------------------------------------------------------ solvers
def run_solver(cmd, path, timeout):
    t0 = time.time()
    try:
        p = subprocess.run(cmd + [path], stdout=subprocess.PIPE, stderr=subprocess.STDOUT, text=True, timeout=timeout + 10)
        out = p.stdout
    except subprocess.TimeoutExpired:
        out = "timeout"
    dt = time.time() - t0
    if "(error" in out or "error" in out.lower() and "unsat" not in out and "sat" not in out:
        res = "error"
    else:
        first = [l.strip() for l in out.splitlines() if l.strip() in ("sat", "unsat", "unknown", "timeout")]
        res = first[0] if first else ("timeout" if "timeout" in out else "error")
    return res, dt, out


SOLVERS = [
    ("z3-4.8.12", lambda to: ["/usr/bin/z3", "-T:%d" % to]),
    ("cvc5-1.0.3", lambda to: ["cvc5", "--lang", "smt2", "--tlimit=%d" % (to * 1000)]),
]


def check(qdir, name, script, expect, timeout=120, produce_model=False, get_values=None):
    """runs both solvers; returns dict(verdict= 'ok' | 'violated' | 'inconclusive', per-solver results)"""
    path = os.path.join(qdir, name + ".smt2")
    with open(path, "w") as fh:
        fh.write(script)
    res = {}
    total = 0.0
    model = None
    for sname, mk in SOLVERS:
        r, dt, out = run_solver(mk(timeout), path, timeout)
        res[sname] = r
        total += dt
    if produce_model and expect == "unsat" and "sat" in res.values() and get_values:
        mpath = os.path.join(qdir, name + ".model.smt2")
        with open(mpath, "w") as fh:
            fh.write(script + "(get-value (%s))\n" % " ".join(get_values))
        which = [i for i, (sn, _m) in enumerate(SOLVERS) if res[sn] == "sat"][0]
        _r, _dt, model = run_solver(SOLVERS[which][1](timeout), mpath, timeout)
    vals = set(res.values())
    if vals == {expect}:
        verdict = "ok"
    elif vals <= {"sat", "unsat"} and len(vals) == 1:
        verdict = "violated"
    else:
        verdict = "inconclusive"
    return {"verdict": verdict, "solvers": res, "time_s": round(total, 2), "model_out": model, "path": path}


def script(ctx, asserts, get_values=None):
    lines = ["(set-logic ALL)", "(set-option :produce-models true)"]
    lines += ctx.decls
    for d in ctx.defs:
        lines.append("(assert %s)" % d)
    for a in asserts:
        lines.append("(assert %s)" % a)
    lines.append("(check-sat)")
    return "\n".join(lines) + "\n"


# ------------------------------------------------------------------------------------------ obligations
class Obl:
    def __init__(self, oid, props, tier, statement, fn, functions, assumptions=(), role="deciding", finding=None):
        self.id, self.props, self.tier, self.statement, self.fn = oid, props, tier, statement, fn
        self.functions, self.assumptions, self.role, self.finding = list(functions), list(assumptions), role, finding


def goal_query(ctx, inputs_range, outs, prop_of, allow=None):
    """negated goal: some path is feasible and (it overflows/panics, or returns a value violating prop)"""
    disj = []
    for o in outs:
        pc = AND(o.pc)
        if o.kind == "ret":
            disj.append(AND([pc, "(not %s)" % prop_of(o.value, o)]))
        else:
            if allow is not None:
                disj.append(AND([pc, "(not %s)" % allow]))
            else:
                disj.append(pc)
    return script(ctx, inputs_range + [OR(disj)], get_values=[])


def reach_query(ctx, inputs_range, outs):
    return script(ctx, inputs_range + [OR([AND(o.pc) for o in outs if o.kind == "ret"])])


def two_step(S, qdir, oid, ctx, ranges, outs, prop_of, inputs, allow=None, timeout=120):
    """main query (expect unsat) + vacuity twin (expect sat)."""
    q = goal_query(ctx, ranges, outs, prop_of, allow)
    r1 = check(qdir, oid + ".goal", q, "unsat", timeout, produce_model=True, get_values=inputs)
    r2 = check(qdir, oid + ".reach", reach_query(ctx, ranges, outs), "sat", timeout)
    return r1, r2


def o_secs_contract(S, qdir, bound_bits, oid):
    ctx, ex = S.new()
    x = ctx.var("x")
    T = op_table(S)
    t = mk_time(x)
    so, _ = run_op(S, ctx, ex, T, "secs", [x])
    results = []
    # run the three functions; combine outcomes pairwise is unnecessary: all are single-path + overflow forks
    no, _ = run_op(S, ctx, ex, T, "subsec", [x])
    uo, _ = run_op(S, ctx, ex, T, "subnano", [x])
    rng_in = ["(<= 0 x)", "(< x %d)" % bound_bits]
    bad = []
    for outs in (so, no, uo):
        for o in outs:
            if o.kind != "ret":
                bad.append(AND(o.pc))
    rs = [o for o in so if o.kind == "ret"]
    rn = [o for o in no if o.kind == "ret"]
    ru = [o for o in uo if o.kind == "ret"]
    assert len(rs) == 1 and len(rn) == 1 and len(ru) == 1
    s, n, u = rs[0].value.term, rn[0].value.term, bits(ru[0].value)
    low = ctx.fresh("low")
    rel = AND(["(= x (+ (* (+ (* (+ (* %s %d) %s) 65536) %s) 65536) %s))" % (s, NS, n, u, low),
               "(<= 0 %s)" % n, "(< %s %d)" % (n, NS), "(<= 0 %s)" % u, "(< %s 65536)" % u,
               # the contract used by the K-engine stubs: whole nanoseconds = secs * 10^9 + subsec
               ])
    pcs = AND(rs[0].pc + rn[0].pc + ru[0].pc)
    # exists low in [0, 65536) making the relation true  <=>  negation: for the unique candidate low := x - (...)*65536
    lowdef = "(= %s (- x (* (+ (* (+ (* %s %d) %s) 65536) %s) 65536)))" % (low, s, NS, n, u)
    goal = OR(bad + [AND([pcs, lowdef, "(not (and %s (<= 0 %s) (< %s 65536)))" % (rel, low, low)])])
    q = script(ctx, rng_in + [goal])
    r1 = check(qdir, oid + ".goal", q, "unsat", produce_model=True, get_values=["x"])
    r2 = check(qdir, oid + ".reach", script(ctx, rng_in + [pcs]), "sat")

    def rp(model_out):
        vals = model_values(model_out, ["x"])
        if vals is None:
            return None, "no model"
        xv = vals["x"]
        out = native_eval(S.native, ["secs %d" % xv, "subsec %d" % xv, "subnano %d" % xv])
        if "PANIC" in out:
            return True, "native run panics for inner=%d: %s" % (xv, out)
        sv, nv, uv = int(out[0]), int(out[1]), int(out[2])
        lowv = xv - (((sv * NS + nv) * 65536 + uv) * 65536)
        ok = 0 <= lowv < 65536 and 0 <= nv < NS and 0 <= uv < 65536
        return (not ok), "native: inner=%d secs=%d subsec=%d subnano=%d" % (xv, sv, nv, uv)
    r1["replayer"] = rp
    return [r1, r2], ctx


def simple(S, qdir, oid, op, nargs, ranges_fn, prop_fn, allow_fn=None, timeout=120):
    return chain_query(S, qdir, oid, nargs, ranges_fn,
                       lambda n: [(op, lambda r: list(n))],
                       lambda r, n, c: prop_fn(r[0], n, c), allow_fn, timeout)


def chain(S, ctx, ex, T, steps):
    """steps: list of (op, argterms builder from previous results) - executes sequentially, threading path
    conditions; returns list of (pc, [result term lists], bad) combos"""
    combos = [([], [], None)]
    for op, argf in steps:
        new = []
        for pc, res, bad in combos:
            if bad:
                new.append((pc, res, bad))
                continue
            args = argf(res)
            outs, extract = run_op(S, ctx, ex, T, op, args)
            for o in outs:
                if o.kind == "ret":
                    new.append((pc + o.pc, res + [extract(o.value)], None))
                else:
                    new.append((pc + o.pc, res, o.reason))
        combos = new
    return combos


def model_values(model_out, names):
    vals = {}
    for n in names:
        m = re.search(r"\(\s*%s\s+((?:-?\d+)|\(-\s*\d+\))\s*\)" % re.escape(n), model_out or "")
        if not m:
            return None
        vals[n] = parse_smt_int(m.group(1))
    return vals


def ground_holds(qdir, tag, ctx2, formula, subst=None):
    """decide a ground formula (plus the definitional constraints of ctx2) with z3: True / False / None"""
    path = os.path.join(qdir, tag + ".ground.smt2")
    if subst:
        ctx2.defs = [subst(d) for d in ctx2.defs]
    with open(path, "w") as fh:
        fh.write(script(ctx2, ["(not %s)" % formula]))
    r, _dt, _out = run_solver(SOLVERS[0][1](60), path, 60)
    if r == "unsat":
        return True
    if r == "sat":
        return False
    return None


def make_replayer(S, qdir, oid, names, steps_fn, prop_fn, allow_fn):
    """replays a model against the natively compiled functions: run the same operation chain through the
    native helper, then evaluate the property on the native results"""
    def rp(model_out):
        vals = model_values(model_out, names)
        if vals is None:
            return None, "no model values"
        lits = {n: lit(v) for n, v in vals.items()}
        ctx2 = Ctx(S.mir)
        subst = lambda t: re.sub(r"\ba(\d+)\b", lambda m: lits.get("a" + m.group(1), m.group(0)), t)
        res = []
        trace = []
        for op, argf in steps_fn(names):
            args = [subst(a) for a in argf(res)]
            argv = []
            for a in args:
                v = try_eval_term(a)
                if v is None:
                    return None, "argument %s not ground" % a
                argv.append(v)
            out = native_eval(S.native, ["%s %s" % (op, " ".join(str(x) for x in argv))])[0]
            trace.append("%s(%s) -> %s" % (op, ", ".join(str(x) for x in argv), out))
            if out == "PANIC":
                if allow_fn is not None:
                    ok = ground_holds(qdir, oid, ctx2, subst(allow_fn(names)))
                    if ok:
                        return False, "native panic in the allowed region: " + "; ".join(trace)
                return True, "native run panics (debug profile): " + "; ".join(trace)
            res.append([lit(int(x)) for x in out.split()])
        holds = ground_holds(qdir, oid, ctx2, subst(prop_fn(res, names, ctx2)), subst)
        if holds is None:
            return None, "could not evaluate the property on native results"
        return (not holds), ("property evaluated on native results: %s; " % holds) + "; ".join(trace)
    return rp


def try_eval_term(t):
    from .engine import try_eval
    return try_eval(t)


def chain_query(S, qdir, oid, nargs, ranges_fn, steps_fn, prop_fn, allow_fn=None, timeout=120):
    ctx, ex = S.new()
    T = op_table(S)
    names = ["a%d" % i for i in range(nargs)]
    for n in names:
        ctx.var(n)
    combos = chain(S, ctx, ex, T, steps_fn(names))
    disj, reach = [], []
    allow = allow_fn(names) if allow_fn else None
    for pc, res, bad in combos:
        if bad:
            disj.append(AND(pc + (["(not %s)" % allow] if allow else [])))
        else:
            disj.append(AND(pc + ["(not %s)" % prop_fn(res, names, ctx)]))
            reach.append(AND(pc))
    q = script(ctx, ranges_fn(names) + [OR(disj)])
    r1 = check(qdir, oid + ".goal", q, "unsat", timeout, produce_model=True, get_values=names)
    r2 = check(qdir, oid + ".reach", script(ctx, ranges_fn(names) + [OR(reach)]), "sat", timeout)
    r1["replayer"] = make_replayer(S, qdir, oid, names, steps_fn, prop_fn, allow_fn)
    return [r1, r2], ctx


def build_obligations():
    O = []
    trange = lambda n: ["(<= 0 %s)" % n, "(< %s %d)" % (n, T_MAX_BITS)]
    drange = lambda n, lim=D63: ["(< (- %d) %s)" % (lim, n), "(< %s %d)" % (n, lim)]

    O.append(Obl("c16_secs_subsec_subnano_split", ["C16", "C10"], "quick",
                 "for every Time with inner < 2^48 s: inner == ((secs*10^9 + subsec_nanos)*2^16 + subnano)*2^16 + low16, 0 <= subsec < 10^9, 0 <= subnano < 2^16, and none of secs/subsec_nanos/subnano overflows or panics",
                 lambda S, q: o_secs_contract(S, q, T_MAX_BITS, "c16_secs_subsec_subnano_split"),
                 ["Time::secs", "Time::subsec_nanos", "Time::subnano"]))
    O.append(Obl("c16_secs_contract_for_stubs", ["C16", "C10"], "quick",
                 "the contract assumed by the K-engine stubs: for every Time whose seconds fit u64 (inner < 2^64*10^9 ns): inner>>32 == secs*10^9 + subsec_nanos, 0 <= subsec_nanos < 10^9, no overflow",
                 lambda S, q: o_secs_contract(S, q, STUB_MAX_BITS, "c16_secs_contract_for_stubs"),
                 ["Time::secs", "Time::subsec_nanos", "Time::subnano"]))
    O.append(Obl("c16_wire_to_time_exact", ["C16"], "quick",
                 "for seconds < 2^48 and any u32 nanoseconds: Time::from(WireTimestamp) has inner == (seconds*10^9 + nanos) * 2^32, without overflow",
                 lambda S, q: simple(S, q, "c16_wire_to_time_exact", "wire2time", 2,
                                     lambda n: ["(<= 0 a0)", "(< a0 %d)" % (1 << 48), "(<= 0 a1)", "(< a1 %d)" % (1 << 32)],
                                     lambda r, n, c: "(= %s (* (+ (* a0 %d) a1) %d))" % (r[0], NS, 1 << 32)),
                 ["From<WireTimestamp> for Time", "Time::from_fixed_nanos"]))
    O.append(Obl("c16_time_to_wire_split", ["C16", "C10"], "quick",
                 "for every Time < 2^48 s: WireTimestamp::from(Time) has seconds*10^9 + nanos == floor(inner / 2^32), nanos < 10^9, seconds < 2^48, no overflow",
                 lambda S, q: simple(S, q, "c16_time_to_wire_split", "time2wire", 1, lambda n: trange("a0"),
                                     lambda r, n, c: (lambda qq: "(and (= (+ (* %s %d) %s) %s) (<= 0 %s) (< %s %d) (< %s %d))" % (r[0], NS, r[1], qq, r[1], r[1], NS, r[0], 1 << 48))(c.floordiv_const("a0", 1 << 32)[0])),
                 ["From<Time> for WireTimestamp", "Time::secs", "Time::subsec_nanos"]))
    O.append(Obl("c16_time_wire_roundtrip", ["C16"], "quick",
                 "for every Time t < 2^48 s: Time::from(WireTimestamp::from(t)) + Duration::from(t.subnano()) differs from t by less than 2^-16 ns (and is <= t), no overflow",
                 lambda S, q: chain_query(S, q, "c16_time_wire_roundtrip", 1, lambda n: trange("a0"),
                                          lambda n: [("time2wire", lambda r: ["a0"]), ("subnano", lambda r: ["a0"]),
                                                     ("wire2time", lambda r: [r[0][0], r[0][1]]), ("ti2dur", lambda r: [r[1][0]]),
                                                     ("tadd", lambda r: [r[2][0], r[3][0]])],
                                          lambda r, n, c: "(and (<= %s a0) (< (- a0 %s) 65536))" % (r[4][0], r[4][0])),
                 ["From<Time> for WireTimestamp", "Time::subnano", "From<WireTimestamp> for Time", "From<TimeInterval> for Duration", "Add<Duration> for Time"]))
    O.append(Obl("c16_add_then_sub_identity", ["C16"], "quick",
                 "for every Time t < 2^48 s and Duration |d| < 2^63 ns with t + d >= 0: (t + d) - d == t, and neither operation overflows; when t + d < 0 the addition is flagged (debug panic / release wrap), never silently accepted",
                 lambda S, q: chain_query(S, q, "c16_add_then_sub_identity", 2, lambda n: trange("a0") + drange("a1"),
                                          lambda n: [("tadd", lambda r: ["a0", "a1"]), ("tsub", lambda r: [r[0][0], "a1"])],
                                          lambda r, n, c: "(and (= %s a0) (= %s (+ a0 a1)))" % (r[1][0], r[0][0]),
                                          allow_fn=lambda n: "(< (+ a0 a1) 0)"),
                 ["Add<Duration> for Time", "Sub<Duration> for Time", "Neg for Duration"]))
    O.append(Obl("c16_add_then_diff_identity", ["C16"], "quick",
                 "for every Time t < 2^48 s and Duration |d| < 2^63 ns with t + d >= 0: (t + d) - t == d exactly",
                 lambda S, q: chain_query(S, q, "c16_add_then_diff_identity", 2, lambda n: trange("a0") + drange("a1"),
                                          lambda n: [("tadd", lambda r: ["a0", "a1"]), ("tdiff", lambda r: [r[0][0], "a0"])],
                                          lambda r, n, c: "(= %s a1)" % r[1][0],
                                          allow_fn=lambda n: "(< (+ a0 a1) 0)"),
                 ["Add<Duration> for Time", "Sub<Time> for Time", "Duration::from_fixed_nanos", "Sub for Duration"]))
    O.append(Obl("c16_time_diff_exact", ["C16"], "quick",
                 "for all Times t1, t2 < 2^48 s: t1 - t2 has inner == inner1 - inner2, no overflow",
                 lambda S, q: simple(S, q, "c16_time_diff_exact", "tdiff", 2, lambda n: trange("a0") + trange("a1"),
                                     lambda r, n, c: "(= %s (- a0 a1))" % r[0]),
                 ["Sub<Time> for Time", "Duration::from_fixed_nanos", "Sub for Duration", "Neg for Duration", "Add for Duration"]))
    O.append(Obl("c16_timeinterval_to_duration_exact", ["C16"], "quick",
                 "for every i64 bit pattern b: Duration::from(TimeInterval(b)) has inner == b * 2^16, no overflow",
                 lambda S, q: simple(S, q, "c16_timeinterval_to_duration_exact", "ti2dur", 1,
                                     lambda n: [in_range("a0", True, 64)], lambda r, n, c: "(= %s (* a0 65536))" % r[0]),
                 ["From<TimeInterval> for Duration", "Duration::from_fixed_nanos"]))
    O.append(Obl("c16_timeinterval_roundtrip", ["C16"], "quick",
                 "for every i64 bit pattern b: TimeInterval::from(Duration::from(TimeInterval(b))) == TimeInterval(b)",
                 lambda S, q: chain_query(S, q, "c16_timeinterval_roundtrip", 1, lambda n: [in_range("a0", True, 64)],
                                          lambda n: [("ti2dur", lambda r: ["a0"]), ("dur2ti", lambda r: [r[0][0]])],
                                          lambda r, n, c: "(= %s a0)" % r[1][0]),
                 ["From<TimeInterval> for Duration", "From<Duration> for TimeInterval"]))
    O.append(Obl("c16_duration_to_timeinterval_floor", ["C16"], "quick",
                 "for every Duration within +-2^63 * 2^-16 ns: TimeInterval::from(d) == floor(d * 2^16) (rounds toward minus infinity to 2^-16 ns)",
                 lambda S, q: simple(S, q, "c16_duration_to_timeinterval_floor", "dur2ti", 1,
                                     lambda n: ["(<= (- %d) a0)" % (1 << 79), "(< a0 %d)" % (1 << 79)],
                                     lambda r, n, c: "(and (<= (* %s 65536) a0) (< (- a0 (* %s 65536)) 65536))" % (r[0], r[0])),
                 ["From<Duration> for TimeInterval"]))
    O.append(Obl("c16_duration_neg_add_sub", ["C16"], "quick",
                 "for Durations |a|,|b| < 2^63 ns: -a, a + b and a - b are exact, no overflow",
                 lambda S, q: chain_query(S, q, "c16_duration_neg_add_sub", 2, lambda n: drange("a0") + drange("a1"),
                                          lambda n: [("dneg", lambda r: ["a0"]), ("dadd", lambda r: ["a0", "a1"]), ("dsub", lambda r: ["a0", "a1"]), ("dabs", lambda r: ["a0"])],
                                          lambda r, n, c: "(and (= %s (- a0)) (= %s (+ a0 a1)) (= %s (- a0 a1)) (= %s (abs a0)))" % (r[0][0], r[1][0], r[2][0], r[3][0])),
                 ["Neg for Duration", "Add for Duration", "Sub for Duration", "Duration::abs"]))
    O.append(Obl("c16_duration_constructors", ["C16"], "quick",
                 "Duration::from_nanos/micros/millis/secs(k) have inner == k * {1, 10^3, 10^6, 10^9} * 2^32 for every i64 k for which that fits 96 integer bits (all k for nanos/micros/millis/secs), no overflow",
                 lambda S, q: chain_query(S, q, "c16_duration_constructors", 1, lambda n: [in_range("a0", True, 64)],
                                          lambda n: [("dfrom_nanos", lambda r: ["a0"]), ("dfrom_micros", lambda r: ["a0"]), ("dfrom_millis", lambda r: ["a0"]), ("dfrom_secs", lambda r: ["a0"])],
                                          lambda r, n, c: "(and (= %s (* a0 %d)) (= %s (* a0 %d)) (= %s (* a0 %d)) (= %s (* a0 %d)))" % (
                                              r[0][0], 1 << 32, r[1][0], 1000 << 32, r[2][0], 1000000 << 32, r[3][0], NS << 32)),
                 ["Duration::from_nanos", "Duration::from_micros", "Duration::from_millis", "Duration::from_secs"]))
    O.append(Obl("c16_time_constructors", ["C16"], "quick",
                 "Time::from_secs(k) has inner == k * 10^9 * 2^32 for every u64 k (never overflows 96 integer bits); Time::from_nanos_subnanos(n, f) has inner == n * 2^32 + f for every u64 n and u32 f",
                 lambda S, q: chain_query(S, q, "c16_time_constructors", 2, lambda n: [in_range("a0", False, 64), in_range("a1", False, 32)],
                                          lambda n: [("tfrom_secs", lambda r: ["a0"]), ("tfrom_nanos_subnanos", lambda r: ["a0", "a1"])],
                                          lambda r, n, c: "(and (= %s (* a0 %d)) (= %s (+ (* a0 %d) a1)))" % (r[0][0], NS << 32, r[1][0], 1 << 32)),
                 ["Time::from_secs", "Time::from_nanos_subnanos"]))
    O.append(Obl("c16_duration_halving", ["C16", "C09"], "quick",
                 "for every Duration |d| < 2^63 ns: d / 2 has inner == trunc(inner / 2) (toward zero), no overflow; d * 2 == 2 * inner",
                 lambda S, q: chain_query(S, q, "c16_duration_halving", 1, lambda n: drange("a0"),
                                          lambda n: [("ddiv_i32", lambda r: ["a0", "2"]), ("dmul_i32", lambda r: ["a0", "2"])],
                                          lambda r, n, c: (lambda qh: "(and (= %s %s) (= %s (* 2 a0)))" % (r[0][0], qh, r[1][0]))(
                                              c.truncdiv_const("a0", 2)[0])),
                 ["Div<TF> for Duration", "Mul<TF> for Duration"]))
    return O


_OBLS = None


def all_obligations():
    global _OBLS
    if _OBLS is None:
        _OBLS = build_obligations()
        try:
            from . import overlay_obl
            _OBLS += overlay_obl.build()
        except ImportError:
            pass
    return _OBLS


def select(prop, tier, only=None):
    out = [o for o in all_obligations() if prop in o.props and (tier == "thorough" or o.tier == "quick")]
    if only:
        out = [o for o in out if any(x and x in o.id for x in only.split(","))]
    return out


# ------------------------------------------------------------------------------------------ preparation
def prepare(root, log):
    d = os.path.join(root, "mir")
    repo = os.path.join(d, "repo")
    os.makedirs(d, exist_ok=True)
    subprocess.check_call(["rsync", "-a", "--delete", "--exclude", "/target", "--exclude", ".git", overlay.REPO + "/", repo + "/"])
    env = dict(os.environ, CARGO_NET_OFFLINE="true", CARGO_TARGET_DIR=os.path.join(d, "tgt_mir"))
    t0 = time.time()
    p = subprocess.run(["cargo", "+nightly", "rustc", "--offline", "--lib", "--", "-Zunpretty=mir", "-C", "debug-assertions=off", "-C", "overflow-checks=on"],
                       cwd=os.path.join(repo, "statime"), env=env, stdout=subprocess.PIPE, stderr=subprocess.PIPE, text=True)
    if p.returncode != 0 or len(p.stdout) < 1000:
        raise RuntimeError("MIR dump failed:\n" + p.stderr[-2000:])
    log("MIR dump: %d lines in %.0fs" % (p.stdout.count("\n"), time.time() - t0))
    mir = Mir(p.stdout)
    # native helper for differential validation / replay
    shutil.copy(os.path.join(HERE, "native.rs"), os.path.join(d, "native.rs"))
    shutil.copy(os.path.join(HERE, "native_overlay.rs"), os.path.join(d, "native_overlay.rs"))
    with open(os.path.join(repo, "statime/src/lib.rs"), "a") as fh:
        fh.write('\n#[cfg(verif_native)] #[allow(missing_docs)] #[path = "%s/native.rs"] pub mod verif_native;\n' % d)
    with open(os.path.join(repo, "statime/src/overlay_clock.rs"), "a") as fh:
        fh.write('\n#[cfg(verif_native)] #[allow(missing_docs)] #[path = "%s/native_overlay.rs"] pub mod verif_native_overlay;\n' % d)
    os.makedirs(os.path.join(repo, "statime/examples"), exist_ok=True)
    with open(os.path.join(repo, "statime/examples/verif_native.rs"), "w") as fh:
        fh.write("fn main() { statime::verif_native::main() }\n")
    env2 = dict(os.environ, CARGO_NET_OFFLINE="true", CARGO_TARGET_DIR=os.path.join(d, "tgt_native"), RUSTFLAGS="--cfg verif_native")
    t0 = time.time()
    p = subprocess.run(["cargo", "build", "--offline", "-p", "statime", "--example", "verif_native"], cwd=repo, env=env2,
                       stdout=subprocess.PIPE, stderr=subprocess.STDOUT, text=True)
    native = os.path.join(d, "tgt_native", "debug", "examples", "verif_native")
    if p.returncode != 0 or not os.path.exists(native):
        raise RuntimeError("native helper build failed:\n" + p.stdout[-3000:])
    log("native helper built in %.0fs" % (time.time() - t0))
    return mir, native, d


def native_eval(native, lines):
    p = subprocess.run([native], input="\n".join(lines) + "\n", stdout=subprocess.PIPE, stderr=subprocess.DEVNULL, text=True, timeout=120)
    return p.stdout.strip().split("\n")


# ------------------------------------------------------------------------------------------ differential validation
def lattice():
    two32 = 1 << 32
    tvals = [0, 1, two32 - 1, two32, two32 + 1, (NS - 1) * two32 + (two32 - 1), NS * two32, NS * two32 + 1, 12345678901234567 * two32 + 0x80000000,
             (1 << 63) * two32 - 1, (1 << 64) * two32 + 5, ((1 << 48) * NS - 1) * two32 + 0xffff, 1700000000 * NS * two32 + 0x12345678,
             (1 << 96) * two32 - 1, 18446744073 * NS * two32 + 709551616 * two32]
    dvals = [0, 1, -1, 0xffff, -0xffff, 0x10000, -0x10000, two32, -two32, NS * two32, -NS * two32, 1500 * two32 + 77, -(1500 * two32 + 77),
             (1 << 63) * two32 - 1, -((1 << 63) * two32 - 1), -0x3B9ACA0000000001]
    ivals = [0, 1, -1, 2, -2, 65535, 65536, -65536, (1 << 47), -(1 << 47), (1 << 63) - 1, -(1 << 63), 400, -0x7fffffffffff]
    cases = []
    for x in tvals:
        for op in ("secs", "subsec", "subnano", "time2wire"):
            cases.append((op, [x]))
    for s, n in [(0, 0), (1, 0), (0, NS - 1), (5, NS), (1 << 47, 999999999), ((1 << 48) - 1, (1 << 32) - 1), (1700000000, 123456789), (18446744073, 709551616)]:
        cases.append(("wire2time", [s, n]))
    for x in tvals[:13]:
        for y in dvals[:13]:
            cases.append(("tadd", [x, y]))
            cases.append(("tsub", [x, y]))
    for x in tvals[:12]:
        for y in tvals[:12]:
            cases.append(("tdiff", [x, y]))
    for b in ivals:
        cases.append(("ti2dur", [b]))
        for op in ("dfrom_secs", "dfrom_millis", "dfrom_micros", "dfrom_nanos"):
            cases.append((op, [b]))
    for y in dvals + [(1 << 95) * two32 - 1, -(1 << 95) * two32, (1 << 79) + 12345, -(1 << 79) - 12345]:
        for op in ("dur2ti", "dneg", "dabs", "dsecs"):
            cases.append((op, [y]))
        for k in (2, -2, 3, 1000, -7):
            cases.append(("ddiv_i32", [y, k]))
            cases.append(("dmul_i32", [y, k]))
    for a in dvals[:10]:
        for b in dvals[:10]:
            cases.append(("dadd", [a, b]))
            cases.append(("dsub", [a, b]))
    for k in (0, 1, 10, (1 << 34), (1 << 64) - 1):
        cases.append(("tfrom_secs", [k]))
    for k, f in ((0, 0), (0, 1 << 31), (5, (1 << 32) - 1), ((1 << 64) - 1, 7)):
        cases.append(("tfrom_nanos_subnanos", [k, f]))
    return cases


def validate(S, native, qdir, log, extra_cases=None, table_fn=None):
    """push every lattice case through (a) the native functions and (b) the encoding with inputs fixed."""
    cases = lattice() if extra_cases is None else extra_cases
    nat = native_eval(native, ["%s %s" % (op, " ".join(str(a) for a in args)) for op, args in cases])
    if len(nat) != len(cases):
        raise RuntimeError("native helper returned %d lines for %d cases" % (len(nat), len(cases)))
    # phase 1: feasibility of every outcome of every case (one z3 process, push/pop)
    prepared = []
    unsupported = set()
    for (op, args), nres in zip(cases, nat):
        ctx, ex = S.new()
        T = (table_fn or op_table)(S)
        try:
            outs, extract = run_op(S, ctx, ex, T, op, [lit(a) for a in args])
        except Unsupported as e:
            # the obligations that need this operation will report the unsupported construct themselves
            unsupported.add(op)
            continue
        prepared.append((op, args, nres, ctx, outs, extract))

    def run_z3(lines, tag):
        path = os.path.join(qdir, "validate_%s.smt2" % tag)
        with open(path, "w") as fh:
            fh.write("\n".join(lines) + "\n")
        p = subprocess.run(["/usr/bin/z3", "-T:600", path], stdout=subprocess.PIPE, stderr=subprocess.STDOUT, text=True)
        if "(error" in p.stdout:
            raise RuntimeError("validation: solver error: " + p.stdout[p.stdout.index("(error"):][:300])
        return p.stdout

    lines = ["(set-logic ALL)"]
    for op, args, nres, ctx, outs, extract in prepared:
        lines.append("(push)")
        lines += ctx.decls
        lines += ["(assert %s)" % d for d in ctx.defs]
        for o in outs:
            lines += ["(push)", "(assert %s)" % AND(o.pc), "(check-sat)", "(pop)"]
        lines.append("(pop)")
    verdicts = [l.strip() for l in run_z3(lines, "feas").splitlines() if l.strip() in ("sat", "unsat", "unknown")]
    if len(verdicts) != sum(len(p[4]) for p in prepared):
        raise RuntimeError("validation: unexpected solver output length")
    # phase 2: values of the feasible returning outcome
    lines = ["(set-logic ALL)", "(set-option :produce-models true)"]
    k = 0
    enc = []
    want = []
    for op, args, nres, ctx, outs, extract in prepared:
        feas = []
        for o in outs:
            v = verdicts[k]
            k += 1
            if v == "sat":
                feas.append(o)
            elif v != "unsat":
                feas.append(None)
        enc.append((op, args, nres, feas))
        if len(feas) == 1 and feas[0] is not None and feas[0].kind == "ret":
            terms = extract(feas[0].value)
            lines.append("(push)")
            lines += ctx.decls
            lines += ["(assert %s)" % d for d in ctx.defs]
            lines += ["(assert %s)" % AND(feas[0].pc)]
            for ti, tt in enumerate(terms):
                lines += ["(declare-const res_%d Int)" % ti, "(assert (= res_%d %s))" % (ti, tt)]
            lines += ["(check-sat)", "(get-value (%s))" % " ".join("res_%d" % ti for ti in range(len(terms))), "(pop)"]
            want.append(len(terms))
    out2 = run_z3(lines, "vals")
    blocks = re.findall(r"(?m)^sat\s*\n(\(\((?:.|\n)*?\)\))\s*$", out2)
    if len(blocks) != len(want):
        raise RuntimeError("validation: value query returned %d blocks for %d cases" % (len(blocks), len(want)))
    vals_iter = iter(blocks)
    mismatches = []
    n_checked = 0
    for op, args, nres, feas in enc:
        key = (op, tuple(args))
        n_checked += 1
        if len(feas) != 1 or feas[0] is None:
            mismatches.append((key, "encoding has %d feasible outcomes" % len(feas)))
            continue
        o = feas[0]
        if o.kind == "ret":
            blk = next(vals_iter)
            vals = [parse_smt_int(x) for x in re.findall(r"\s((?:-?\d+)|\(-\s*\d+\))\s*\)", blk)]
        if nres == "PANIC":
            if o.kind == "ret":
                mismatches.append((key, "native panics, encoding returns %s" % vals))
        else:
            nv = [int(x) for x in nres.split()]
            if o.kind != "ret":
                mismatches.append((key, "native returns %s, encoding says %s (%s)" % (nv, o.kind, o.reason)))
            elif nv != vals:
                mismatches.append((key, "native %s != encoding %s" % (nv, vals)))
    if unsupported:
        log("differential validation skipped operations with unmodelled MIR constructs: %s" % sorted(unsupported))
    return n_checked, mismatches


def _unused():
    # group by case: exactly one outcome must be feasible
    mismatches = []
    i = 0
    by_case = {}
    for e, verdict, vals in enc:
        key = (e[0], tuple(e[1]))
        by_case.setdefault(key, {"native": e[2], "feasible": []})
        if verdict == "sat":
            by_case[key]["feasible"].append((e[3], vals))
        elif verdict != "unsat":
            mismatches.append((key, "solver said %s" % verdict))
    for key, v in by_case.items():
        n_checked += 1
        if len(v["feasible"]) != 1:
            mismatches.append((key, "encoding has %d feasible outcomes" % len(v["feasible"])))
            continue
        kind, vals = v["feasible"][0]
        if v["native"] == "PANIC":
            if kind == "ret":
                mismatches.append((key, "native panics, encoding returns %s" % vals))
        else:
            nv = [int(x) for x in v["native"].split()]
            if kind != "ret":
                mismatches.append((key, "native returns %s, encoding says %s" % (nv, kind)))
            elif nv != vals:
                mismatches.append((key, "native %s != encoding %s" % (nv, vals)))
    return n_checked, mismatches


def parse_smt_int(s):
    s = s.strip()
    if s.startswith("("):
        return -int(re.sub(r"[^\d]", "", s))
    return int(s)


# ------------------------------------------------------------------------------------------ run
def run(obls, scratch_root, log):
    qdir = os.path.join(scratch_root, "smt")
    os.makedirs(qdir, exist_ok=True)
    results = []
    try:
        mir, native, d = prepare(scratch_root, log)
    except Exception as e:
        return [{"id": o.id, "engine": "smt", "outcome": "inconclusive", "error": str(e)[-1500:], "statement": o.statement, "role": o.role} for o in obls]
    S = Session(mir, log)
    S.native = native
    t0 = time.time()
    try:
        n, mism = validate(S, native, qdir, log)
        from . import overlay_obl
        if any(o.id.startswith("c18") for o in obls):
            n2, m2 = overlay_obl.validate(S, native, qdir, log)
            n += n2
            mism += m2
    except Exception as e:
        import traceback
        return [{"id": o.id, "engine": "smt", "outcome": "inconclusive", "error": "differential validation failed to run: " + traceback.format_exc()[-1500:], "statement": o.statement, "role": o.role} for o in obls]
    log("differential validation: %d concrete cases, %d mismatches (%.0fs)" % (n, len(mism), time.time() - t0))
    if mism:
        for m in mism[:10]:
            log("  MISMATCH %s: %s" % m)
        return [{"id": o.id, "engine": "smt", "outcome": "inconclusive", "role": o.role,
                 "error": "translator/summaries disagree with the native functions on %d concrete cases, e.g. %s" % (len(mism), mism[0]), "statement": o.statement} for o in obls]
    for o in obls:
        t1 = time.time()
        entry = {"id": o.id, "engine": "smt", "statement": o.statement, "functions": o.functions, "assumptions": o.assumptions, "role": o.role,
                 "validated_concrete_cases": n}
        try:
            rs, ctx = o.fn(S, qdir)
            entry["queries"] = 2 * len(rs)
            entry["solvers"] = [r["solvers"] for r in rs]
            entry["solver_time_s"] = round(sum(r["time_s"] for r in rs), 2)
            entry["mir_functions_executed"] = sorted(set(ctx.trace))[:40]
            verdicts = [r["verdict"] for r in rs]
            if all(v == "ok" for v in verdicts):
                entry["outcome"] = "discharged"
            elif rs[0]["verdict"] == "violated" or (rs[0]["verdict"] == "inconclusive" and "sat" in rs[0]["solvers"].values() and rs[0].get("model_out")):
                # counterexample (from both solvers, or from one while the other gave up): replay natively.
                # A counterexample that reproduces against the compiled code is a violation whatever the other solver says.
                entry["model"] = (rs[0]["model_out"] or "")[:2000]
                rep = replay(o, rs[0], S, qdir)
                entry.update(rep)
                if o.finding and rep.get("reproduced"):
                    entry["outcome"] = "known"
                    entry["finding"] = o.finding
                elif rep.get("reproduced") is True:
                    entry["outcome"] = "violation"
                elif rep.get("reproduced") is False:
                    entry["outcome"] = "inconclusive"
                    entry["error"] = "counterexample did not reproduce natively (encoding or summary wrong): " + str(rep.get("note"))
                else:
                    entry["outcome"] = "inconclusive"
                    entry["error"] = "counterexample could not be replayed natively"
            else:
                entry["outcome"] = "inconclusive"
                entry["error"] = "solver verdicts: %s" % entry["solvers"]
        except Unsupported as e:
            entry["outcome"] = "inconclusive"
            entry["error"] = "MIR construct not modelled: %s" % e
        except Exception as e:
            import traceback
            entry["outcome"] = "inconclusive"
            entry["error"] = traceback.format_exc()[-1500:]
        entry["wall_s"] = round(time.time() - t1, 1)
        log("%-44s %-12s %s %.1fs" % (o.id, entry["outcome"], entry.get("solvers", ""), entry["wall_s"]))
        if entry.get("error"):
            log("   " + entry["error"][-600:])
        results.append(entry)
    return results


def replay(o, r, S, qdir):
    """store the model; reproduction against the native helper is obligation specific (see `replayer`)"""
    prop = o.props[0]
    rdir = os.path.join(VERIF, "replay", prop, o.id)
    shutil.rmtree(rdir, ignore_errors=True)
    os.makedirs(rdir, exist_ok=True)
    shutil.copy(r["path"], os.path.join(rdir, "query.smt2"))
    with open(os.path.join(rdir, "model.json"), "w") as fh:
        json.dump({"obligation": o.id, "statement": o.statement, "solver_output": r["model_out"], "solvers": r["solvers"]}, fh, indent=1)
    out = {"replay": rdir}
    rp = r.get("replayer")
    if rp:
        try:
            ok, note = rp(r["model_out"])
            out["reproduced"] = ok
            out["note"] = note
            with open(os.path.join(rdir, "native_outcome.json"), "w") as fh:
                json.dump({"reproduced": ok, "note": note}, fh, indent=1)
        except Exception as e:
            out["reproduced"] = None
    else:
        out["reproduced"] = None
    return out
