//! Native evaluation of the real time-arithmetic functions (differential validation of engine M's
//! encoding, and native replay of its counterexamples). Mounted in the scratch copy only, under
//! `--cfg verif_native`. Protocol: one request per stdin line, `op arg...` with decimal integer
//! arguments (raw fixed-point bits); one reply line: space separated integers, or `PANIC`.
use std::prelude::v1::*;
use std::{format, println};
use std::io::BufRead;
use std::panic::catch_unwind;

use fixed::types::{I48F16, I96F32, U96F32};

use crate::datastructures::common::{TimeInterval, WireTimestamp};
use crate::time::{Duration, Time};

fn t(bits: u128) -> Time {
    Time::from_fixed_nanos(U96F32::from_bits(bits))
}
fn d(bits: i128) -> Duration {
    Duration::from_fixed_nanos(I96F32::from_bits(bits))
}
fn tb(x: Time) -> String {
    x.nanos().to_bits().to_string()
}
fn db(x: Duration) -> String {
    x.nanos().to_bits().to_string()
}

fn eval(op: &str, a: &[i128]) -> String {
    let u = |i: usize| a[i] as u128;
    match op {
        "secs" => t(u(0)).secs().to_string(),
        "subsec" => t(u(0)).subsec_nanos().to_string(),
        "subnano" => t(u(0)).subnano().0.to_bits().to_string(),
        "wire2time" => tb(Time::from(WireTimestamp { seconds: a[0] as u64, nanos: a[1] as u32 })),
        "time2wire" => {
            let w = WireTimestamp::from(t(u(0)));
            format!("{} {}", w.seconds, w.nanos)
        }
        "tadd" => tb(t(u(0)) + d(a[1])),
        "tsub" => tb(t(u(0)) - d(a[1])),
        "tdiff" => db(t(u(0)) - t(u(1))),
        "ti2dur" => db(Duration::from(TimeInterval(I48F16::from_bits(a[0] as i64)))),
        "dur2ti" => TimeInterval::from(d(a[0])).0.to_bits().to_string(),
        "dneg" => db(-d(a[0])),
        "dadd" => db(d(a[0]) + d(a[1])),
        "dsub" => db(d(a[0]) - d(a[1])),
        "dabs" => db(d(a[0]).abs()),
        "dmul_i32" => db(d(a[0]) * (a[1] as i32)),
        "ddiv_i32" => db(d(a[0]) / (a[1] as i32)),
        "drem" => db(d(a[0]) % d(a[1])),
        "dsecs" => d(a[0]).secs().to_string(),
        "dfrom_secs" => db(Duration::from_secs(a[0] as i64)),
        "dfrom_millis" => db(Duration::from_millis(a[0] as i64)),
        "dfrom_micros" => db(Duration::from_micros(a[0] as i64)),
        "dfrom_nanos" => db(Duration::from_nanos(a[0] as i64)),
        "tfrom_secs" => tb(Time::from_secs(a[0] as u64)),
        "tfrom_nanos_subnanos" => tb(Time::from_nanos_subnanos(a[0] as u64, a[1] as u32)),
        "roundtrip_wire" => {
            // Time -> (WireTimestamp, subnano correction) -> Time
            let x = t(u(0));
            let w = WireTimestamp::from(x);
            let c = x.subnano();
            tb(Time::from(w) + Duration::from(c))
        }
        "ov_tfu" | "ov_setfreq" | "ov_step" => crate::overlay_clock::verif_native_overlay::eval(op, a),
        _ => "UNKNOWN".to_string(),
    }
}

/// entry point of the helper binary
pub fn main() {
    std::panic::set_hook(Box::new(|_| {}));
    let stdin = std::io::stdin();
    for line in stdin.lock().lines() {
        let line = line.unwrap();
        let mut it = line.split_whitespace();
        let op = match it.next() {
            Some(o) => o.to_string(),
            None => continue,
        };
        let args: Vec<i128> = it.map(|s| s.parse::<i128>().unwrap_or_else(|_| s.parse::<u128>().unwrap() as i128)).collect();
        let r = catch_unwind(|| eval(&op, &args));
        match r {
            Ok(s) => println!("{}", s),
            Err(_) => println!("PANIC"),
        }
    }
}
