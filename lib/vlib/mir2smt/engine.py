"""Symbolic executor for the rustc MIR (text form, -Zunpretty=mir) of statime's loop-free arithmetic
functions, producing SMT-LIB terms over mathematical integers with explicit machine ranges.

Values
  Int(term, signed, bits)        machine integer; `term` is an SMT Int expression within range
  Fx(term, signed, bits, frac)   fixed-point number, `term` = raw bits as SMT Int
  Bool(term)
  F64(term)                      finite double abstracted by its real value (SMT Real)
  Struct(name, fields)           positional fields
  Tup(items), Opt(is_some, payload), Ref(key, proj), Unit

Calls into statime functions are executed from their own MIR (inlined); calls into `fixed`, `az`,
`core` are *summaries* (SUMMARIES below) - the trusted base of engine M, validated on every run by
differential concrete execution against the natively compiled functions.
Division / remainder / shifts-right are encoded with the division lemma (fresh q, r), never div/mod.
"""
import re, itertools


class Unsupported(Exception):
    pass


# ------------------------------------------------------------------------------------------ values
class Int:
    def __init__(s, term, signed, bits): s.term, s.signed, s.bits = term, signed, bits
    def __repr__(s): return "Int(%s,%s%d)" % (s.term, "i" if s.signed else "u", s.bits)

class Fx:
    def __init__(s, term, signed, bits, frac): s.term, s.signed, s.bits, s.frac = term, signed, bits, frac
    def __repr__(s): return "Fx(%s,%s%d.%d)" % (s.term, "I" if s.signed else "U", s.bits, s.frac)

class Bool:
    def __init__(s, term): s.term = term

class F64:
    def __init__(s, term): s.term = term

class Struct:
    def __init__(s, name, fields): s.name, s.fields = name, list(fields)
    def __repr__(s): return "%s%r" % (s.name, s.fields)

class Tup:
    def __init__(s, items): s.items = list(items)

class Opt:
    def __init__(s, is_some, payload): s.is_some, s.payload = is_some, payload

class Ref:
    def __init__(s, key, proj=()): s.key, s.proj = key, tuple(proj)

class Enum:
    """fieldless enum / Ordering: discriminant as SMT Int"""
    def __init__(s, term): s.term = term

UNIT = Tup([])


def rng(signed, bits):
    return (-(1 << (bits - 1)), (1 << (bits - 1)) - 1) if signed else (0, (1 << bits) - 1)


def lit(n):
    return str(n) if n >= 0 else "(- %d)" % (-n)


def in_range(term, signed, bits):
    lo, hi = rng(signed, bits)
    return "(and (<= %s %s) (<= %s %s))" % (lit(lo), term, term, lit(hi))


# ------------------------------------------------------------------------------------------ parsing
TYPENUM = re.compile(r"(?:typenum::uint::UInt<)+typenum::uint::UTerm(?:, typenum::bit::B[01]>)+")


def _tn(m):
    bits = re.findall(r"typenum::bit::B([01])", m.group(0))
    return "U%d" % int("".join(bits), 2)


class Func:
    def __init__(s, header, body):
        s.header = header
        m = re.match(r"fn (.*?)\((.*)\) -> (.*) \{$", header, re.S)
        if not m:
            m = re.match(r"fn (.*?)\((.*)\) \{$", header, re.S)
            s.path, params, s.ret = m.group(1), m.group(2), "()"
        else:
            s.path, params, s.ret = m.group(1), m.group(2), m.group(3)
        s.params = []
        for p in split_top(params):
            p = p.strip()
            if not p:
                continue
            n, t = p.split(":", 1)
            s.params.append((int(n.strip()[1:]), t.strip()))
        s.name = s.path.split("::")[-1]
        fm = re.search(r"statime/src/([\w/]+\.rs)", s.path)
        s.file = fm.group(1) if fm else None
        s.blocks = {}
        cur = None
        for line in body.split("\n"):
            t = line.strip()
            m = re.match(r"bb(\d+)(?: \(cleanup\))?: \{$", t)
            if m:
                cur = int(m.group(1))
                s.blocks[cur] = []
            elif t == "}":
                cur = None if cur is not None else cur
            elif cur is not None and t and not t.startswith("//"):
                s.blocks[cur].append(t)


def split_top(s, sep=","):
    out, depth, cur = [], 0, ""
    for ch in s:
        if ch in "<([{":
            depth += 1
        elif ch in ">)]}":
            depth -= 1
        if ch == sep and depth == 0:
            out.append(cur)
            cur = ""
        else:
            cur += ch
    if cur.strip():
        out.append(cur)
    return out


class Mir:
    def __init__(self, text):
        text = TYPENUM.sub(_tn, text)
        self.funcs = []
        for chunk in re.split(r"\n(?=fn )", text):
            if not chunk.startswith("fn "):
                continue
            i = chunk.index("{\n") if "{\n" in chunk else -1
            if i < 0:
                continue
            header = chunk[: i + 1].replace("\n", " ")
            self.funcs.append(Func(header, chunk[i + 1:]))

    def find(self, file, name, nparams=None, first_param=None, second_param=None, ret=None):
        c = [f for f in self.funcs if f.file == file and f.name == name and "{closure" not in f.path]
        if nparams is not None:
            c = [f for f in c if len(f.params) == nparams]
        if first_param is not None:
            c = [f for f in c if f.params and _tyname(f.params[0][1]) == first_param]
        if second_param is not None:
            c = [f for f in c if len(f.params) > 1 and _tyname(f.params[1][1]) == second_param]
        if ret is not None:
            c = [f for f in c if _tyname(f.ret) == ret]
        if len(c) != 1:
            raise Unsupported("cannot resolve %s::%s uniquely in the MIR dump (%d candidates)" % (file, name, len(c)))
        return c[0]


def _tyname(t):
    t = t.strip().lstrip("&").replace("mut ", "").strip()
    t = re.sub(r"<.*>", "", t)
    return t.split("::")[-1]


FX_RE = re.compile(r"Fixed([IU])(\d+)(?:::)?<U(\d+)>")


def parse_fx(s):
    m = FX_RE.search(s)
    if not m:
        return None
    return (m.group(1) == "I", int(m.group(2)), int(m.group(3)))


INT_RE = re.compile(r"^(?:([iu])(8|16|32|64|128)|(usize|isize))$")


def parse_int(s):
    m = INT_RE.match(s.strip())
    if not m:
        return None
    if m.group(3):
        return (m.group(3) == "isize", 64)
    return (m.group(1) == "i", int(m.group(2)))


# ------------------------------------------------------------------------------------------ execution
class Ctx:
    """one obligation's SMT context: declarations, global (definitional) constraints"""
    def __init__(self, mir):
        self.mir = mir
        self.decls = []
        self.defs = []
        self.n = 0
        self.fid = 0
        self.trace = []      # functions executed (evidence)

    def fresh(self, base, sort="Int"):
        self.n += 1
        name = "%s!%d" % (base, self.n)
        self.decls.append("(declare-const |%s| %s)" % (name, sort))
        return "|%s|" % name

    def var(self, name, sort="Int"):
        self.decls.append("(declare-const %s %s)" % (name, sort))
        return name

    # floor division by a positive constant via the division lemma.
    # Sound normalisations that spare the solver from re-deriving Euclidean uniqueness with 2^96-size
    # coefficients: (1) common factor of dividend `(* t K)` and divisor removed; (2) one (q, r) pair per
    # (dividend, divisor); (3) a quotient or remainder that is divided again is linked to the division of the
    # original dividend by the product (nested-floor identity), reusing / equating the existing pair.
    def floordiv_const(self, a, c):
        assert c > 0
        if not hasattr(self, "divs"):
            self.divs = {}      # (dividend, divisor) -> (q, r)
            self.qinfo = {}     # quotient var -> (dividend, divisor, r)
            self.rinfo = {}     # remainder var -> (dividend, divisor, q)
        import math
        m = re.match(r"^\(\* (.+) (\d+)\)$", a)
        if m and try_eval(m.group(1)) is None:
            t, K = m.group(1), int(m.group(2))
            g = math.gcd(K, c)
            if g > 1:
                if K // g == 1:
                    q, r2 = self.floordiv_const(t, c // g) if c // g > 1 else (t, "0")
                else:
                    q, r2 = self.floordiv_const("(* %s %d)" % (t, K // g), c // g) if c // g > 1 else ("(* %s %d)" % (t, K // g), "0")
                return q, ("(* %s %d)" % (r2, g) if r2 != "0" else "0")
        if c == 1:
            return a, "0"
        key = (a, c)
        if key in self.divs:
            return self.divs[key]
        q, r = self.fresh("q"), self.fresh("r")
        self.defs.append("(= %s (+ (* %d %s) %s))" % (a, c, q, r))
        self.defs.append("(and (<= 0 %s) (< %s %d))" % (r, r, c))
        self.divs[key] = (q, r)
        self.qinfo[q] = (a, c, r)
        self.rinfo[r] = (a, c, q)
        # (3a) a is itself a quotient: a = floor(x / A)  =>  q = floor(x / (A*c)), remainder A*r + r_prev
        if a in self.qinfo:
            x, A, rprev = self.qinfo[a]
            self._link(x, A * c, q, "(+ (* %d %s) %s)" % (A, r, rprev))
        # (3b) a is a remainder: a = x mod M with c | M  =>  floor(x / c) = (M/c) * qM + q ; x mod c = r
        if a in self.rinfo:
            x, M, qM = self.rinfo[a]
            if M % c == 0:
                self._link(x, c, "(+ (* %d %s) %s)" % (M // c, qM, q), r)
        return q, r

    def _link(self, x, M, qterm, rterm):
        key = (x, M)
        if key in self.divs:
            q0, r0 = self.divs[key]
            self.defs.append("(= %s %s)" % (q0, qterm))
            self.defs.append("(= %s %s)" % (r0, rterm))
        else:
            # register as a derived division fact (implied by the two lemma instances it comes from)
            self.divs[key] = (qterm, rterm)
            self.qinfo[qterm] = (x, M, rterm)
            self.rinfo[rterm] = (x, M, qterm)
            self.defs.append("(= %s (+ (* %d %s) %s))" % (x, M, qterm, rterm))
            self.defs.append("(and (<= 0 %s) (< %s %d))" % (rterm, rterm, M))

    # truncated division (Rust `/`, `%`) by a non-zero constant
    def truncdiv_const(self, a, c):
        assert c != 0
        q, r = self.fresh("q"), self.fresh("r")
        ac = abs(c)
        self.defs.append("(= %s (+ (* %s %s) %s))" % (a, lit(c), q, r))
        self.defs.append("(and (< (- %d) %s) (< %s %d))" % (ac, r, r, ac))
        self.defs.append("(=> (> %s 0) (>= %s 0))" % (a, r))
        self.defs.append("(=> (< %s 0) (<= %s 0))" % (a, r))
        self.defs.append("(=> (= %s 0) (= %s 0))" % (a, r))
        return q, r

    # truncated division by a symbolic divisor b (caller handles b = 0)
    def truncdiv_sym(self, a, b):
        q, r = self.fresh("q"), self.fresh("r")
        nz = "(not (= %s 0))" % b
        self.defs.append("(=> %s (= %s (+ (* %s %s) %s)))" % (nz, a, b, q, r))
        self.defs.append("(=> %s (< (abs %s) (abs %s)))" % (nz, r, b))
        self.defs.append("(=> (and %s (> %s 0)) (>= %s 0))" % (nz, a, r))
        self.defs.append("(=> (and %s (< %s 0)) (<= %s 0))" % (nz, a, r))
        self.defs.append("(=> (and %s (= %s 0)) (= %s 0))" % (nz, a, r))
        return q, r


class Outcome:
    def __init__(self, kind, pc, value=None, reason=None, store=None):
        self.kind, self.pc, self.value, self.reason, self.store = kind, pc, value, reason, store


class State:
    def __init__(self, store=None, pc=None):
        self.store = dict(store or {})
        self.pc = list(pc or [])

    def fork(self, cond):
        s = State(self.store, self.pc)
        s.pc.append(cond)
        return s


def try_eval(term):
    """evaluate a term built from integer literals with + - * abs; None if it mentions a variable"""
    toks = re.findall(r"\(|\)|[^\s()]+", term)
    pos = [0]

    def parse():
        t = toks[pos[0]]
        pos[0] += 1
        if t == "(":
            op = toks[pos[0]]
            pos[0] += 1
            args = []
            while toks[pos[0]] != ")":
                a = parse()
                if a is None:
                    return None
                args.append(a)
            pos[0] += 1
            if op == "+":
                return sum(args)
            if op == "*":
                r = 1
                for a in args:
                    r *= a
                return r
            if op == "-":
                return -args[0] if len(args) == 1 else args[0] - sum(args[1:])
            if op == "abs" and len(args) == 1:
                return abs(args[0])
            return None
        if re.match(r"^\d+$", t):
            return int(t)
        return None

    try:
        v = parse()
        return v if pos[0] == len(toks) else None
    except Exception:
        return None


def is_const_int(term):
    return try_eval(term) is not None


def const_val(term):
    return try_eval(term)


class Exec:
    def __init__(self, ctx, summaries):
        self.ctx = ctx
        self.summaries = summaries
        self.depth = 0

    # ---- places
    def read_place(self, st, fid, text):
        base, projs = parse_place(text)
        v = st.store.get((fid, base))
        if v is None:
            raise Unsupported("read of unassigned local _%d in `%s`" % (base, text))
        for p in projs:
            if p == "*":
                v = self.deref(st, v)
            elif isinstance(p, int):
                v = self.field(v, p)
            else:
                pass  # downcast: payload access follows
        return v

    def deref(self, st, v):
        while isinstance(v, Ref):
            t = st.store[v.key]
            for p in v.proj:
                t = self.field(t, p)
            v = t
        return v

    def field(self, v, i):
        if isinstance(v, Struct):
            return v.fields[i]
        if isinstance(v, Tup):
            return v.items[i]
        if isinstance(v, Opt):
            return v.payload
        raise Unsupported("field .%d of %r" % (i, v))

    def write_place(self, st, fid, text, val):
        base, projs = parse_place(text)
        if not projs:
            st.store[(fid, base)] = val
            return
        key = (fid, base)
        path = []
        cur = st.store.get(key)
        for p in projs:
            if p == "*":
                while isinstance(cur, Ref):
                    key, path = cur.key, list(cur.proj)
                    cur = st.store[key]
                    for q in path:
                        cur = self.field(cur, q)
            elif isinstance(p, int):
                path.append(p)
                cur = self.field(cur, p)
        st.store[key] = self.updated(st.store[key], path, val)

    def updated(self, v, path, val):
        if not path:
            return val
        i = path[0]
        if isinstance(v, Struct):
            f = list(v.fields)
            f[i] = self.updated(f[i], path[1:], val)
            return Struct(v.name, f)
        if isinstance(v, Tup):
            f = list(v.items)
            f[i] = self.updated(f[i], path[1:], val)
            return Tup(f)
        raise Unsupported("write through %r" % (v,))

    # ---- operands
    def operand(self, st, fid, text):
        text = text.strip()
        if text.startswith("copy ") or text.startswith("move "):
            return self.read_place(st, fid, text[5:])
        if text.startswith("const "):
            return self.constant(text[6:])
        raise Unsupported("operand `%s`" % text)

    def constant(self, c):
        c = c.strip()
        m = re.match(r"^(-?\d+)_([iu](?:8|16|32|64|128|size))$", c)
        if m:
            sg, bits = parse_int(m.group(2))
            return Int(lit(int(m.group(1))), sg, bits)
        if c in ("true", "false"):
            return Bool(c)
        m = re.match(r"^(-?[\d\.]+(?:[eE][-+]?\d+)?)f64$", c)
        if m:
            from fractions import Fraction
            fr = Fraction(m.group(1))
            return F64("(/ %s %d.0)" % (("%d.0" % fr.numerator) if fr.numerator >= 0 else "(- %d.0)" % (-fr.numerator), fr.denominator))
        if c == "()":
            return UNIT
        m = re.match(r"^([iu](?:8|16|32|64|128|size))::(MIN|MAX)$", c)
        if m:
            sg, bits = parse_int(m.group(1))
            lo, hi = rng(sg, bits)
            return Int(lit(lo if m.group(2) == "MIN" else hi), sg, bits)
        m = re.search(r"Fixed([IU])(\d+)::<U(\d+)>::ZERO", c)
        if m:
            return Fx("0", m.group(1) == "I", int(m.group(2)), int(m.group(3)))
        raise Unsupported("constant `%s`" % c)

    # ---- rvalues
    def rvalue(self, st, fid, text):
        text = text.strip()
        if text.startswith("&mut ") or text.startswith("&"):
            pl = text[5:] if text.startswith("&mut ") else text[1:]
            base, projs = parse_place(pl.strip())
            # resolve to (key, field path)
            key, path = (fid, base), []
            cur = st.store.get(key)
            for p in projs:
                if p == "*":
                    while isinstance(cur, Ref):
                        key, path = cur.key, list(cur.proj)
                        cur = st.store[key]
                        for q in path:
                            cur = self.field(cur, q)
                elif isinstance(p, int):
                    path.append(p)
                    cur = self.field(cur, p) if cur is not None else None
            return Ref(key, path)
        m = re.match(r"^(\w+)\((.*)\)$", text)
        if m and m.group(1) in BINOPS:
            a, b = [self.operand(st, fid, x) for x in split_top(m.group(2))]
            return self.binop(m.group(1), a, b)
        if m and m.group(1) in ("AddWithOverflow", "SubWithOverflow", "MulWithOverflow"):
            a, b = [self.operand(st, fid, x) for x in split_top(m.group(2))]
            op = {"AddWithOverflow": "+", "SubWithOverflow": "-", "MulWithOverflow": "*"}[m.group(1)]
            exact = "(%s %s %s)" % (op, a.term, b.term)
            # result component is only used on the no-overflow path (the following assert); keep exact value
            return Tup([Int(exact, a.signed, a.bits), Bool("(not %s)" % in_range(exact, a.signed, a.bits))])
        if m and m.group(1) in ("Neg", "Not"):
            a = self.operand(st, fid, m.group(2))
            if m.group(1) == "Not" and isinstance(a, Bool):
                return Bool("(not %s)" % a.term)
            if m.group(1) == "Neg" and isinstance(a, F64):
                return F64("(- %s)" % a.term)
            raise Unsupported("unary `%s`" % text)
        m = re.match(r"^discriminant\((.*)\)$", text)
        if m:
            v = self.read_place(st, fid, m.group(1))
            if isinstance(v, Opt):
                return Int("(ite %s 1 0)" % v.is_some, True, 64)
            if isinstance(v, Enum):
                return Int(v.term, True, 64)
            raise Unsupported("discriminant of %r" % (v,))
        m = re.match(r"^(.*) as (\w+) \((\w+)\)$", text)
        if m:
            v = self.operand(st, fid, m.group(1))
            kind = m.group(3)
            if kind == "IntToInt":
                sg, bits = parse_int(m.group(2))
                return self.int_cast(v, sg, bits)
            if kind == "IntToFloat" and isinstance(v, Int) and m.group(2) == "f64":
                # real-valued abstraction: exact below 2^53, otherwise the nearest double (rounding not modelled)
                return F64("(to_real %s)" % v.term)
            raise Unsupported("cast `%s`" % text)
        if text.startswith("copy ") or text.startswith("move ") or text.startswith("const "):
            return self.operand(st, fid, text)
        # aggregates
        m = re.match(r"^([\w:]+(?:::<.*?>)?) \{ (.*) \}$", text)
        if m:
            fields = []
            for f in split_top(m.group(2)):
                fields.append(self.operand(st, fid, f.split(":", 1)[1]))
            return Struct(m.group(1).split("::<")[0].split("::")[-1], fields)
        m = re.match(r"^(?:core::option::)?Option::<.*>::Some\((.*)\)$", text)
        if m:
            return Opt("true", self.operand(st, fid, m.group(1)))
        m = re.match(r"^Result::<.*>::Ok\((.*)\)$", text)
        if m:
            return Struct("Ok", [self.operand(st, fid, m.group(1))])
        m = re.match(r"^([\w:]+)\((.*)\)$", text)
        if m and re.match(r"^[a-z_]*(::)?[A-Z]\w*$", m.group(1).split("::<")[0]):
            return Struct(m.group(1).split("::")[-1], [self.operand(st, fid, x) for x in split_top(m.group(2))])
        if text.startswith("(") and text.endswith(")"):
            return Tup([self.operand(st, fid, x) for x in split_top(text[1:-1])])
        raise Unsupported("rvalue `%s`" % text)

    def int_cast(self, v, sg, bits):
        if not isinstance(v, Int):
            raise Unsupported("cast of %r" % (v,))
        lo, hi = rng(sg, bits)
        slo, shi = rng(v.signed, v.bits)
        if slo >= lo and shi <= hi:
            return Int(v.term, sg, bits)
        # narrowing / sign change: wrap modulo 2^bits via lemma
        q, r = self.ctx.floordiv_const(v.term, 1 << bits)
        if sg:
            w = "(ite (>= %s %d) (- %s %d) %s)" % (r, 1 << (bits - 1), r, 1 << bits, r)
            return Int(w, sg, bits)
        return Int(r, sg, bits)

    def binop(self, op, a, b):
        if isinstance(a, F64) or isinstance(b, F64):
            o = {"Add": "+", "Sub": "-", "Mul": "*", "Div": "/"}.get(op)
            if o is None:
                raise Unsupported("float op %s" % op)
            # real-valued abstraction of one IEEE operation: exact real result (rounding error is accounted
            # for by the obligation that uses it; see obligations.py)
            return F64("(%s %s %s)" % (o, a.term, b.term))
        if op in ("Eq", "Ne", "Lt", "Le", "Gt", "Ge"):
            o = {"Eq": "=", "Lt": "<", "Le": "<=", "Gt": ">", "Ge": ">="}.get(op)
            ta = a.term
            tb = b.term
            if op == "Ne":
                return Bool("(not (= %s %s))" % (ta, tb))
            return Bool("(%s %s %s)" % (o, ta, tb))
        if op == "Shl":
            if not is_const_int(b.term):
                raise Unsupported("shift by a symbolic amount")
            k = const_val(b.term)
            exact = "(* %s %d)" % (a.term, 1 << k)
            # Rust `<<` drops high bits: wrap
            q, r = self.ctx.floordiv_const(exact, 1 << a.bits)
            if a.signed:
                return Int("(ite (>= %s %d) (- %s %d) %s)" % (r, 1 << (a.bits - 1), r, 1 << a.bits, r), True, a.bits)
            return Int(r, False, a.bits)
        if op == "Shr":
            if not is_const_int(b.term):
                raise Unsupported("shift by a symbolic amount")
            k = const_val(b.term)
            q, r = self.ctx.floordiv_const(a.term, 1 << k)
            return Int(q, a.signed, a.bits)
        if isinstance(a, Bool) and isinstance(b, Bool) and op in ("BitAnd", "BitOr", "BitXor"):
            return Bool("(%s %s %s)" % ({"BitAnd": "and", "BitOr": "or", "BitXor": "xor"}[op], a.term, b.term))
        if op in ("Div", "Rem") and isinstance(a, Int) and isinstance(b, Int):
            # the MIR guards these with explicit assert(!Eq(b, 0)) / overflow asserts; the value is Rust's truncating division
            cv = try_eval(b.term)
            if cv is not None and cv != 0:
                if not a.signed and cv > 0:
                    q, r = self.ctx.floordiv_const(a.term, cv)
                else:
                    q, r = self.ctx.truncdiv_const(a.term, cv)
            else:
                q, r = self.ctx.truncdiv_sym(a.term, b.term)
            return Int(q if op == "Div" else r, a.signed, a.bits)
        if op in ("Add", "Sub", "Mul") and isinstance(a, Int) and isinstance(b, Int):
            # unchecked arithmetic rvalue (the checked forms are *WithOverflow + assert): wrap like the machine does
            o = {"Add": "+", "Sub": "-", "Mul": "*"}[op]
            exact = "(%s %s %s)" % (o, a.term, b.term)
            q, r = self.ctx.floordiv_const(exact, 1 << a.bits)
            if a.signed:
                return Int("(ite (>= %s %d) (- %s %d) %s)" % (r, 1 << (a.bits - 1), r, 1 << a.bits, r), True, a.bits)
            return Int(r, False, a.bits)
        if op == "BitAnd" and isinstance(a, Int) and isinstance(b, Int):
            mv = try_eval(b.term)
            if mv is not None and mv >= 0 and (mv & (mv + 1)) == 0:
                # mask 2^k - 1: value mod 2^k (also for negative two's complement values)
                q, r = self.ctx.floordiv_const(a.term, mv + 1)
                return Int(r, a.signed, a.bits)
            raise Unsupported("BitAnd with a non-mask operand")
        if op == "BitOr":
            # only the disjoint-bits idiom (hi << k) | lo with lo < 2^k is supported; the obligation checks disjointness
            return Int("(+ %s %s)" % (a.term, b.term), a.signed, a.bits) if True else None
        raise Unsupported("binop %s" % op)

    # ---- function execution
    def run(self, func, args, st=None):
        """returns list of Outcome"""
        self.ctx.fid += 1
        fid = self.ctx.fid
        self.depth += 1
        if self.depth > 12:
            raise Unsupported("call depth")
        st = st or State()
        for (n, _t), a in zip(func.params, args):
            st.store[(fid, n)] = a
        self.ctx.trace.append(func.path)
        outs = self.block(func, fid, 0, st, 0)
        self.depth -= 1
        return outs

    def block(self, func, fid, bb, st, steps):
        if steps > 200:
            raise Unsupported("loop or too many blocks in %s" % func.path)
        stmts = func.blocks.get(bb)
        if stmts is None:
            raise Unsupported("missing bb%d in %s" % (bb, func.path))
        for i, s in enumerate(stmts):
            last = i == len(stmts) - 1
            if s.startswith("StorageLive") or s.startswith("StorageDead") or s.startswith("FakeRead") or s.startswith("nop") \
                    or s.startswith("PlaceMention") or s.startswith("Retag") or s.startswith("AscribeUserType") or s.startswith("Coverage"):
                continue
            if s == "return;":
                return [Outcome("ret", st.pc, st.store.get((fid, 0), UNIT), store=st.store)]
            if s == "unreachable;":
                return [Outcome("panic", st.pc, reason="unreachable reached in %s" % func.name, store=st.store)]
            m = re.match(r"^goto -> bb(\d+);$", s)
            if m:
                return self.block(func, fid, int(m.group(1)), st, steps + 1)
            m = re.match(r"^drop\(.*\) -> \[return: bb(\d+).*\];$", s)
            if m:
                return self.block(func, fid, int(m.group(1)), st, steps + 1)
            m = re.match(r"^switchInt\((.*)\) -> \[(.*)\];$", s)
            if m:
                v = self.operand(st, fid, m.group(1))
                outs = []
                seen = []
                for arm in split_top(m.group(2)):
                    k, tgt = arm.split(":")
                    tgt = int(tgt.strip()[2:])
                    k = k.strip()
                    if k == "otherwise":
                        cond = "(and %s)" % " ".join(["(not %s)" % c for c in seen]) if len(seen) > 1 else "(not %s)" % seen[0]
                    else:
                        kv = int(k)
                        if isinstance(v, Bool):
                            cond = v.term if kv != 0 else "(not %s)" % v.term
                        else:
                            cond = "(= %s %s)" % (v.term, lit(kv))
                        seen.append(cond)
                    outs += self.block(func, fid, tgt, st.fork(cond), steps + 1)
                return outs
            m = re.match(r"^assert\((!?)(.*?), \"(.*?)\".*\) -> \[success: bb(\d+).*\];$", s)
            if m:
                v = self.operand(st, fid, m.group(2))
                ok = "(not %s)" % v.term if m.group(1) == "!" else v.term
                bad = v.term if m.group(1) == "!" else "(not %s)" % v.term
                outs = [Outcome("overflow" if "overflow" in m.group(3) else "panic", st.pc + [bad], reason=m.group(3) + " in " + func.name, store=st.store)]
                outs += self.block(func, fid, int(m.group(4)), st.fork(ok), steps + 1)
                return outs
            m = re.match(r"^(.*?) = (.*)\((.*)\) -> \[return: bb(\d+).*\];$", s)
            if m and last:
                dest, callee, argtxt, nxt = m.group(1), m.group(2), m.group(3), int(m.group(4))
                args = [self.operand(st, fid, a) for a in split_top(argtxt)]
                outs = []
                for (st2, val, bad) in self.call(st, callee, args):
                    if bad is not None:
                        outs.append(Outcome(bad[0], st2.pc, reason=bad[1] + " (called from " + func.name + ")", store=st2.store))
                    else:
                        self.write_place(st2, fid, dest, val)
                        outs += self.block(func, fid, nxt, st2, steps + 1)
                return outs
            m = re.match(r"^(.*?) = (.*);$", s)
            if m:
                self.write_place(st, fid, m.group(1).strip(), self.rvalue(st, fid, m.group(2)))
                continue
            raise Unsupported("statement `%s` in %s" % (s, func.path))
        raise Unsupported("block bb%d of %s has no terminator" % (bb, func.path))

    def call(self, st, callee, args):
        """yields (state, value, None) or (state, None, (kind, reason))"""
        callee = callee.strip()
        for pat, fn in self.summaries:
            m = re.match(pat, callee)
            if m:
                return fn(self, st, args, m)
        raise Unsupported("no summary / MIR for callee `%s`" % callee)

    def inline(self, st, func, args):
        res = []
        for o in self.run(func, args, State(st.store, st.pc)):
            st2 = State(o.store if o.store is not None else st.store, o.pc)
            if o.kind == "ret":
                res.append((st2, o.value, None))
            else:
                res.append((st2, None, (o.kind, o.reason)))
        return res


BINOPS = ("Add", "Sub", "Mul", "Div", "Rem", "BitOr", "BitAnd", "BitXor", "Shl", "Shr", "Eq", "Ne", "Lt", "Le", "Gt", "Ge")


def parse_place(text):
    """returns (base local, [projections]) ; projections: '*', int field, 'downcast'"""
    text = text.strip()
    projs = []

    def rec(t):
        t = t.strip()
        m = re.match(r"^_(\d+)$", t)
        if m:
            return int(m.group(1))
        if t.startswith("(*") and t.endswith(")"):
            b = rec(t[2:-1])
            projs.append("*")
            return b
        if t.startswith("*"):
            b = rec(t[1:])
            projs.append("*")
            return b
        if t.startswith("(") and t.endswith(")"):
            inner = t[1:-1]
            # (X.N: T)  or (X as Variant)
            m = re.match(r"^(.*) as (\w+)$", inner)
            if m and ":" not in inner.split(" as ")[-1]:
                b = rec(m.group(1))
                projs.append("downcast")
                return b
            # find the last ".N:" at depth 0
            depth = 0
            idx = -1
            for i, ch in enumerate(inner):
                if ch in "(<[":
                    depth += 1
                elif ch in ")>]":
                    depth -= 1
                elif ch == ":" and depth == 0 and inner[i:i + 2] != "::" and (i == 0 or inner[i - 1] != ":"):
                    idx = i
                    break
            if idx < 0:
                raise Unsupported("place `%s`" % t)
            left = inner[:idx]
            j = left.rindex(".")
            b = rec(left[:j])
            projs.append(int(left[j + 1:]))
            return b
        raise Unsupported("place `%s`" % t)

    base = rec(text)
    return base, projs
