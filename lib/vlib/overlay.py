"""Scratch copy of /repo's current working tree + harness mounts + optional scaling rewrites."""
import os, re, shutil, subprocess
from . import meta

REPO = os.environ.get("VERIF_REPO", "/repo")


class OverlayError(Exception):
    pass


def scratch_root():
    base = os.environ.get("VERIF_SCRATCH", "/var/tmp")
    d = os.path.join(base, "statime-verif.%d" % os.getpid())
    os.makedirs(d, exist_ok=True)
    return d


def _rewrite(path, pattern, repl, what, at_least_one=False):
    with open(path) as fh:
        src = fh.read()
    new, n = re.subn(pattern, repl, src, flags=re.M)
    if (n < 1) if at_least_one else (n != 1):
        raise OverlayError("scaling rewrite '%s' did not match exactly once in %s (matched %d times)" % (what, path, n))
    with open(path, "w") as fh:
        fh.write(new)


def make_variant(root, variant):
    """Create <root>/<variant>/repo with harness mounts; returns (repo_dir, harness_copy_dir)."""
    vdir = os.path.join(root, variant)
    repo = os.path.join(vdir, "repo")
    vh = os.path.join(vdir, "vh")
    os.makedirs(vdir, exist_ok=True)
    subprocess.check_call(["rsync", "-a", "--delete", "--exclude", "/target", "--exclude", ".git",
                           REPO + "/", repo + "/"])
    if os.path.exists(vh):
        shutil.rmtree(vh)
    shutil.copytree(meta.HARNESS_DIR, vh)
    for mount, (src, modpath) in meta.MOUNTS.items():
        mdir = os.path.join(vh, mount)
        if not os.path.isfile(os.path.join(mdir, 'mod.rs')):
            continue
        target = os.path.join(repo, src)
        if not os.path.isfile(target):
            raise OverlayError("mount point %s no longer exists in the repository" % src)
        modname = modpath.split("::")[-1]
        with open(target, "a") as fh:
            fh.write('\n#[cfg(kani)] #[path = "%s/mod.rs"] pub(crate) mod %s;\n' % (mdir, modname))
    if "dl64" in variant:
        _rewrite(os.path.join(repo, "statime/src/datastructures/messages/mod.rs"),
                 r"^pub const MAX_DATA_LEN: usize = 1024;", "pub const MAX_DATA_LEN: usize = 64;",
                 "MAX_DATA_LEN 1024 -> 64")
    if "lists1" in variant:
        fm = os.path.join(repo, "statime/src/bmc/foreign_master.rs")
        _rewrite(fm, r"^const MAX_ANNOUNCE_MESSAGES: usize = 8;", "const MAX_ANNOUNCE_MESSAGES: usize = 2;",
                 "MAX_ANNOUNCE_MESSAGES 8 -> 2")
        _rewrite(fm, r"^const MAX_FOREIGN_MASTERS: usize = 8;", "const MAX_FOREIGN_MASTERS: usize = 1;",
                 "MAX_FOREIGN_MASTERS 8 -> 1")
    if "dl128" in variant:
        _rewrite(os.path.join(repo, "statime/src/datastructures/messages/mod.rs"),
                 r"^pub const MAX_DATA_LEN: usize = 1024;", "pub const MAX_DATA_LEN: usize = 128;",
                 "MAX_DATA_LEN 1024 -> 128")
    if "lists2" in variant:
        fm = os.path.join(repo, "statime/src/bmc/foreign_master.rs")
        _rewrite(fm, r"^const MAX_ANNOUNCE_MESSAGES: usize = 8;", "const MAX_ANNOUNCE_MESSAGES: usize = 2;",
                 "MAX_ANNOUNCE_MESSAGES 8 -> 2")
        _rewrite(fm, r"^const MAX_FOREIGN_MASTERS: usize = 8;", "const MAX_FOREIGN_MASTERS: usize = 2;",
                 "MAX_FOREIGN_MASTERS 8 -> 2")
    if variant.endswith("_rv"):
        # the dependency's ArrayVec::retain (guard-based, data-dependent hole index) replaced at statime's call
        # sites by an element-wise equivalent for <= 2 elements (harness/fm: retain2); statime's closure and
        # receiver stay as they are. Kani's #[stub] rejects the generic signature, hence the textual form.
        fm = os.path.join(repo, "statime/src/bmc/foreign_master.rs")
        _rewrite(fm, r"(\bself(?:\.\w+)+)\.retain\(", r"verif_fm::retain2(&mut \1, ",
                 "ArrayVec::retain -> verif_fm::retain2 at statime's call sites", at_least_one=True)
    return repo, vh


def repo_identity():
    """Short description of what tree was checked (HEAD + dirty flag)."""
    try:
        head = subprocess.check_output(["git", "-C", REPO, "rev-parse", "--short", "HEAD"], text=True).strip()
        dirty = subprocess.check_output(["git", "-C", REPO, "status", "--porcelain", "--untracked-files=no"], text=True).strip()
        return head + ("+dirty" if dirty else "")
    except Exception:
        return "unknown"
