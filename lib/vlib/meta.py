"""Harness metadata: parsed from `// @key value` comment blocks in /verif/harness/**.rs"""
import os, re

VERIF = os.path.dirname(os.path.dirname(os.path.dirname(os.path.abspath(__file__))))
HARNESS_DIR = os.path.join(VERIF, "harness")

# mount directory under harness/  ->  (source file in the crate, crate module path of the mount)
MOUNTS = {
    "root":     ("statime/src/lib.rs",                            "verif_root"),
    "port":     ("statime/src/port/mod.rs",                       "port::verif_port"),
    "bmca":     ("statime/src/bmc/bmca.rs",                       "bmc::bmca::verif_bmca"),
    "compare":  ("statime/src/bmc/dataset_comparison.rs",         "bmc::dataset_comparison::verif_compare"),
    "fm":       ("statime/src/bmc/foreign_master.rs",             "bmc::foreign_master::verif_fm"),
    "messages": ("statime/src/datastructures/messages/mod.rs",    "datastructures::messages::verif_messages"),
    "tlv":      ("statime/src/datastructures/common/tlv.rs",      "datastructures::common::tlv::verif_tlv"),
    "kalman":   ("statime/src/filters/kalman.rs",                 "filters::kalman::verif_kalman"),
    "basic":    ("statime/src/filters/basic.rs",                  "filters::basic::verif_basic"),
    "overlay":  ("statime/src/overlay_clock.rs",                  "overlay_clock::verif_overlay"),
    "instance": ("statime/src/ptp_instance.rs",                   "ptp_instance::verif_instance"),
}

VARIANTS = ("base", "dl128", "lists2", "dl128_lists2", "dl64_lists1", "lists2_rv")


class Harness:
    def __init__(self):
        self.fn = None
        self.full = None
        self.file = None
        self.props = []
        self.tier = "quick"
        self.variant = "base"
        self.timeout = 600
        self.mem_gb = 6
        self.stubbing = False
        self.expect = "pass"
        self.role = "deciding"
        self.functions = []
        self.bounds = []
        self.assume = []
        self.note = []
        self.features = None
        self.cbmc_args = None
        self.prop_tier = {}
        self.replay = "playback"   # playback | trace (stubbed harnesses cannot be played back natively)

    def to_dict(self):
        return {k: getattr(self, k) for k in (
            "fn", "full", "props", "tier", "variant", "timeout", "stubbing", "expect", "role",
            "functions", "bounds", "assume", "note")}


def _module_path(mount, rel):
    base = MOUNTS[mount][1]
    parts = rel[:-3].split(os.sep)
    if parts[-1] == "mod":
        parts = parts[:-1]
    return "::".join([base] + parts) if parts else base


def scan():
    out = []
    for mount in sorted(os.listdir(HARNESS_DIR)):
        mdir = os.path.join(HARNESS_DIR, mount)
        if not os.path.isdir(mdir) or mount not in MOUNTS:
            continue
        for root, _dirs, files in os.walk(mdir):
            for f in sorted(files):
                if not f.endswith(".rs"):
                    continue
                path = os.path.join(root, f)
                rel = os.path.relpath(path, mdir)
                modpath = _module_path(mount, rel)
                out.extend(_parse_file(path, modpath))
    names = {}
    for h in out:
        if h.fn in names:
            raise SystemExit("duplicate harness fn name %s (%s, %s)" % (h.fn, h.file, names[h.fn]))
        names[h.fn] = h.file
    return out


def _parse_file(path, modpath):
    res = []
    cur = None
    with open(path) as fh:
        for line in fh:
            s = line.strip()
            m = re.match(r"//\s*@(\w+)\s*(.*)$", s)
            if m:
                key, val = m.group(1), m.group(2).strip()
                if key == "harness":
                    cur = Harness()
                    cur.fn = val
                    cur.full = modpath + "::" + val
                    cur.file = path
                    res.append(cur)
                elif cur is None:
                    continue
                elif key == "props":
                    # "C09 C03:thorough" = quick for C09 (per @tier), only in the thorough tier for C03
                    cur.props = []
                    cur.prop_tier = {}
                    for x in val.split():
                        if ":" in x:
                            a, b = x.split(":")
                            cur.props.append(a)
                            cur.prop_tier[a] = b
                        else:
                            cur.props.append(x)
                elif key == "tier":
                    cur.tier = val
                elif key == "variant":
                    assert val in VARIANTS, (path, val)
                    cur.variant = val
                elif key == "timeout":
                    cur.timeout = int(val)
                elif key == "mem":
                    cur.mem_gb = int(val)
                elif key == "stubbing":
                    cur.stubbing = val.lower() in ("yes", "true", "1")
                    if cur.stubbing:
                        cur.replay = "trace"
                elif key == "expect":
                    cur.expect = val
                elif key == "role":
                    cur.role = val
                elif key == "replay":
                    cur.replay = val
                elif key == "features":
                    cur.features = val
                elif key == "cbmc":
                    cur.cbmc_args = val
                elif key == "functions":
                    cur.functions += [x.strip() for x in val.split(",") if x.strip()]
                elif key == "bounds":
                    cur.bounds.append(val)
                elif key == "assume":
                    cur.assume.append(val)
                elif key == "note":
                    cur.note.append(val)
                else:
                    raise SystemExit("%s: unknown metadata key @%s" % (path, key))
            elif s.startswith("fn ") or s.startswith("pub fn ") or s.startswith("pub(super) fn "):
                if cur is not None:
                    m2 = re.match(r"(?:pub(?:\(\w+\))?\s+)?fn\s+(\w+)", s)
                    if m2 and m2.group(1) != cur.fn:
                        raise SystemExit("%s: @harness %s is followed by fn %s" % (path, cur.fn, m2.group(1)))
                cur = None
    return res
