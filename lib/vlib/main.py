import os, sys, json, time, shutil, random, re, subprocess, threading, queue, argparse, traceback
from . import meta, overlay, kani

VERIF = meta.VERIF
EVID = os.path.join(VERIF, "evidence")
REPLAY = os.path.join(VERIF, "replay")

TRUSTED_BASE = [
    "Kani 0.68.0 (MIR -> goto-program translation, its models of core/alloc intrinsics) and CBMC 6.11.0 with CaDiCaL",
    "rustc (Kani's pinned nightly) MIR generation; dev profile: debug assertions and overflow checks on",
    "Kani's default checks: panic/assert/unwrap, arithmetic overflow, index and slice bounds, pointer validity, division by zero, shift distance, unwinding assertions (left on: a too-small unwind bound fails the harness)",
    "the `fixed`, `az`, `arrayvec`, `rand` crates are executed from source by CBMC, not summarised (engine K)",
]


def log(msg):
    print("[vcheck] " + msg, flush=True)


def load_findings():
    p = os.path.join(VERIF, "known_findings.json")
    if not os.path.exists(p):
        return {"findings": [], "fixed": []}
    with open(p) as fh:
        return json.load(fh)


def finding_matches(finding, h, failed):
    if finding.get("harness") != h.fn:
        return False
    if not failed:
        return False
    pats = finding.get("checks", [])
    for f in failed:
        ok = False
        for p in pats:
            if re.search(p.get("desc", ""), f["desc"]) and re.search(p.get("loc", ""), f["loc"]):
                ok = True
                break
        if not ok:
            return False
    return True


class Runner:
    def __init__(self, prop, tier, seed, jobs, keep, only):
        self.prop, self.tier, self.seed, self.jobs, self.keep, self.only = prop, tier, seed, jobs, keep, only
        self.root = overlay.scratch_root()
        self.logdir = os.path.join(self.root, "logs")
        self.variants = {}
        self.results = {}
        self.lock = threading.Lock()

    def cleanup(self):
        if self.keep:
            log("keeping scratch %s" % self.root)
            return
        shutil.rmtree(self.root, ignore_errors=True)

    # ---------------------------------------------------------------- K engine
    def prepare_variant(self, variant, first_h):
        repo, vh = overlay.make_variant(self.root, variant)
        seed_dir = os.path.join(self.root, variant, "tgt_seed")
        ok, text = kani.seed_target(repo, seed_dir, first_h, self.logdir)
        self.variants[variant] = {"repo": repo, "vh": vh, "seed": seed_dir, "ok": ok, "err": text}

    def worker_target(self, variant, w):
        d = os.path.join(self.root, variant, "tgt%d" % w)
        if not os.path.isdir(d):
            subprocess.check_call(["cp", "-a", self.variants[variant]["seed"], d])
        return d

    def run_all(self, hs):
        by_variant = {}
        for h in hs:
            by_variant.setdefault(h.variant, []).append(h)
        threads = []
        for v, lst in by_variant.items():
            # seed with a non-stubbing harness if possible (stubbing changes compiler flags only at codegen)
            t = threading.Thread(target=self._prep_safe, args=(v, lst[0]))
            t.start()
            threads.append(t)
        for t in threads:
            t.join()
        q = queue.Queue()
        # longest first: measured wall times of an earlier run (tools/costs.json, a scheduling hint only) where known
        try:
            costs = json.load(open(os.path.join(os.path.dirname(os.path.dirname(os.path.dirname(os.path.abspath(__file__)))), "tools", "costs.json")))
        except (OSError, ValueError):
            costs = {}
        cost = lambda h: int(costs.get(h.fn, h.timeout / 4.0) // 60)
        order = sorted(hs, key=lambda h: (-cost(h), h.fn))
        rnd = random.Random(self.seed)
        # seed only permutes scheduling among harnesses of equal cost class
        groups = {}
        for h in order:
            groups.setdefault(cost(h), []).append(h)
        order = []
        for k in sorted(groups, reverse=True):
            g = groups[k]
            rnd.shuffle(g)
            order += g
        for h in order:
            q.put(h)
        nworkers = max(1, min(self.jobs, len(hs)))

        budget_total = mem_budget_gb()
        budget = [budget_total]
        cv = threading.Condition()

        def work(w):
            while True:
                try:
                    h = q.get_nowait()
                except queue.Empty:
                    return
                need = min(float(h.mem_gb), budget_total)
                with cv:
                    while budget[0] < need:
                        cv.wait()
                    budget[0] -= need
                try:
                    self.run_one(h, w)
                finally:
                    with cv:
                        budget[0] += need
                        cv.notify_all()

        ts = [threading.Thread(target=work, args=(w,)) for w in range(nworkers)]
        for t in ts:
            t.start()
        for t in ts:
            t.join()
        # retry timeouts / OOM once, alone
        for h in order:
            r = self.results[h.fn]
            # a timeout may be due to contention with sibling processes; an out-of-memory run is deterministic
            if r["status"] == "TIMEOUT" and h.role == "deciding":
                log("retrying %s alone (%s)" % (h.fn, r["status"]))
                self.run_one(h, 0, tag=".retry", timeout=int(h.timeout * 1.5))

    def _prep_safe(self, v, h):
        try:
            self.prepare_variant(v, h)
        except overlay.OverlayError as e:
            self.variants[v] = {"ok": False, "err": str(e)}
        except Exception as e:
            self.variants[v] = {"ok": False, "err": "overlay failed: %r" % (e,)}

    def run_one(self, h, w, tag="", timeout=None):
        v = self.variants[h.variant]
        if not v["ok"]:
            r = {"status": "ERROR", "error": v["err"][-3000:], "checks": 0, "failed": [], "covers": [],
                 "wall_s": 0, "cbmc_time_s": None, "max_rss_mb": None, "stubs": [], "undetermined": []}
        else:
            try:
                tdir = self.worker_target(h.variant, w)
                r = kani.run_harness(v["repo"], tdir, h, self.logdir, tag=tag, timeout=timeout)
                if r["status"] == "ERROR":
                    with open(r["log"], errors="replace") as fh:
                        r["error"] = fh.read()[-3000:]
            except Exception as e:
                r = {"status": "ERROR", "error": traceback.format_exc(), "checks": 0, "failed": [], "covers": [],
                     "wall_s": 0, "cbmc_time_s": None, "max_rss_mb": None, "stubs": [], "undetermined": []}
        with self.lock:
            self.results[h.fn] = r
        log("%-44s %-8s wall=%6.1fs cbmc=%s checks=%d failed=%d covers=%d/%d rss=%sMB" % (
            h.fn + tag, r["status"], r["wall_s"], r.get("cbmc_time_s"), r["checks"], len(r["failed"]),
            sum(1 for c in r["covers"] if c["status"] == "SATISFIED"), len(r["covers"]), r.get("max_rss_mb")))

    # ---------------------------------------------------------------- replay
    def replay(self, h, r):
        """Re-run with concrete playback, store artefacts, try to reproduce natively.
        returns (replay_path, reproduced: True|False|None)"""
        v = self.variants[h.variant]
        rdir = os.path.join(REPLAY, self.prop, h.fn)
        shutil.rmtree(rdir, ignore_errors=True)
        os.makedirs(rdir, exist_ok=True)
        with open(os.path.join(rdir, "failed_checks.json"), "w") as fh:
            json.dump({"harness": h.full, "variant": h.variant, "failed": r["failed"], "repo": overlay.repo_identity(),
                       "cmd": r.get("cmd")}, fh, indent=1)
        # extracting concrete values means a second solver run of the same cost; in the quick tier that is only done
        # for harnesses cheap enough to keep the whole check inside its time budget. The violation itself is decided
        # by the first run (failed checks of the compiled code); without the second run the report is "trace only".
        cap = float(os.environ.get("VERIF_REPLAY_CAP", "200" if self.tier == "quick" else "3600"))
        if (r.get("wall_s") or 0) > cap:
            with open(os.path.join(rdir, "NOTE.txt"), "w") as fh:
                fh.write("The failing run took %.0f s; concrete-value extraction (a second solver run) was skipped in this tier\n"
                         "(VERIF_REPLAY_CAP=%.0f s). Re-run `./vcheck %s --tier thorough --only %s` for the concrete playback test.\n"
                         % (r.get("wall_s") or 0, cap, self.prop, h.fn))
            return rdir, None
        tdir = self.worker_target(h.variant, 0)
        rr = kani.run_harness(v["repo"], tdir, h, self.logdir, tag=".playback",
                              extra_args=["-Z", "concrete-playback", "--concrete-playback=print"],
                              timeout=int(h.timeout * 1.5))
        test_src = None
        try:
            with open(rr["log"], errors="replace") as fh:
                text = fh.read()
            blocks = re.findall(r"```\n(.*?)```", text, re.S)
            # Kani emits one test per failed check and per satisfied cover; keep those of failed checks
            keep = [b for b in blocks if not re.search(r"Check for `cover`", b)]
            if not keep:
                keep = blocks
            # distinct tests only
            seen, uniq = set(), []
            for b in keep:
                m = re.search(r"fn (kani_concrete_playback_\w+)", b)
                if m and m.group(1) not in seen:
                    seen.add(m.group(1))
                    uniq.append(b)
            if uniq:
                test_src = "\n".join(uniq)
        except Exception:
            pass
        if not test_src:
            with open(os.path.join(rdir, "NOTE.txt"), "w") as fh:
                fh.write("Kani produced no concrete playback test for this failure.\n")
            return rdir, None
        with open(os.path.join(rdir, "playback_test.rs"), "w") as fh:
            fh.write("// harness: %s (variant %s)\n// paste into the harness module and run `cargo kani playback -Z concrete-playback`\n" % (h.full, h.variant))
            fh.write(test_src)
        if h.replay != "playback":
            with open(os.path.join(rdir, "NOTE.txt"), "w") as fh:
                fh.write("Harness uses #[kani::stub]; native playback does not apply stubs, so the\n"
                         "counterexample is reported from the solver's assignment (values in playback_test.rs)\n"
                         "and the failed-check list only.\n")
            return rdir, None
        # native reproduction: append the test to the scratch copy of the harness file and run it
        m = re.search(r"fn (kani_concrete_playback_\w+)", test_src)
        if not m:
            return rdir, None
        # all generated tests share this prefix; the run reproduces if any of them fails natively
        tname = "kani_concrete_playback_" + h.fn
        hfile = os.path.join(v["vh"], os.path.relpath(h.file, meta.HARNESS_DIR))
        with open(hfile, "a") as fh:
            # the crate is no_std: bring the std prelude items the generated test uses into scope
            fh.write("\n#[cfg(test)]\nmod kani_playback_generated {\n    #![allow(unused_imports)]\n    use super::*;\n    extern crate std;\n    use std::vec;\n    use std::vec::Vec;\n"
                     + test_src + "\n}\n")
        outcome = {}
        for prof in ("dev", "release"):
            cmd = ["cargo", "kani", "playback", "-Z", "concrete-playback", "-p", "statime", "--", tname]
            plog = os.path.join(rdir, "native_%s.log" % prof)
            env = dict(kani.ENV)
            env["CARGO_TARGET_DIR"] = os.path.join(self.root, h.variant, "tgt_playback_" + prof)
            if prof == "release":
                # `cargo kani playback` has no --release; emulate what distinguishes the release profile for these
                # properties: no debug assertions, no overflow checks
                for k in ("DEV", "TEST"):
                    env["CARGO_PROFILE_%s_DEBUG_ASSERTIONS" % k] = "false"
                    env["CARGO_PROFILE_%s_OVERFLOW_CHECKS" % k] = "false"
            with open(plog, "w") as fh:
                try:
                    rc = subprocess.call(cmd, cwd=v["repo"], stdout=fh, stderr=subprocess.STDOUT, env=env, timeout=900)
                except subprocess.TimeoutExpired:
                    rc = -1
            with open(plog, errors="replace") as fh:
                t = fh.read()
            if re.search(r"test result: FAILED|panicked at", t):
                outcome[prof] = "reproduced"
            elif re.search(r"test result: ok\. 1 passed", t):
                outcome[prof] = "not reproduced"
            else:
                outcome[prof] = "could not run"
        with open(os.path.join(rdir, "native_outcome.json"), "w") as fh:
            json.dump(outcome, fh, indent=1)
        if "reproduced" in outcome.values():
            return rdir, True
        if all(x == "could not run" for x in outcome.values()):
            return rdir, None
        return rdir, False


def mem_budget_gb():
    """memory the scheduler may hand out: VERIF_MEM_GB if set, else min(48, what the machine has available now - 6)"""
    if os.environ.get("VERIF_MEM_GB"):
        return float(os.environ["VERIF_MEM_GB"])
    try:
        for line in open("/proc/meminfo"):
            if line.startswith("MemAvailable:"):
                return max(8.0, min(48.0, int(line.split()[1]) / 1048576.0 - 6.0))
    except OSError:
        pass
    return 48.0


def select(prop, tier, only):
    hs = [h for h in meta.scan() if prop in h.props]
    if tier == "quick":
        hs = [h for h in hs if h.prop_tier.get(prop, h.tier) == "quick"]
    if only:
        hs = [h for h in hs if any(o and o in h.fn for o in only.split(","))]  # comma-separated substrings
    return hs


def main(argv):
    ap = argparse.ArgumentParser()
    ap.add_argument("prop", nargs="?")
    ap.add_argument("--tier", default=os.environ.get("VERIF_TIER", "quick"))
    ap.add_argument("--only", default=None)
    ap.add_argument("--jobs", type=int, default=int(os.environ.get("VERIF_JOBS", "14")))
    ap.add_argument("--keep", action="store_true")
    ap.add_argument("--list", action="store_true")
    ap.add_argument("--replay", default=None)
    ap.add_argument("--compile", default=None, metavar="VARIANT", help="developer aid: overlay + cargo kani --only-codegen, print compiler errors")
    a = ap.parse_args(argv)
    if a.list:
        for h in meta.scan():
            print("%-46s %-22s %-8s %-13s t=%-5d %s" % (h.fn, ",".join(h.props), h.tier, h.variant, h.timeout, h.role))
        return 0
    if a.compile:
        return compile_only(a.compile)
    if a.replay:
        p = a.replay
        for f in ("failed_checks.json", "native_outcome.json", "NOTE.txt", "playback_test.rs", "model.json"):
            fp = os.path.join(p, f)
            if os.path.exists(fp):
                print("==== " + fp)
                print(open(fp).read())
        return 0
    if not a.prop:
        ap.print_usage()
        return 2
    tier = a.tier if a.tier in ("quick", "thorough") else "quick"
    seed = int(os.environ.get("VERIF_SEED", "0") or 0)
    t0 = time.time()
    from . import smt
    if a.prop == "ALL":
        # developer aid: every claimed property in one pass (each harness / obligation runs once, the verdict and
        # the evidence file of every property are then computed from the shared results)
        here = os.path.dirname(os.path.dirname(os.path.dirname(os.path.abspath(__file__))))
        props = [l.strip() for l in open(os.path.join(here, "tools", "claimed.txt")) if l.strip() and not l.startswith("#")]
    else:
        props = [a.prop]
    sel = {p: (select(p, tier, a.only), smt.obligations_for(p, tier, a.only)) for p in props}
    hs, smt_obls = [], []
    for p in props:
        for h in sel[p][0]:
            if all(h.fn != x.fn for x in hs):
                hs.append(h)
        for o in sel[p][1]:
            if all(o.id != x.id for x in smt_obls):
                smt_obls.append(o)
    if not hs and not smt_obls:
        log("no obligations registered for %s" % a.prop)
        return 2
    R = Runner(a.prop, tier, seed, a.jobs, a.keep, a.only)
    R.scope = a.prop
    exit_code = 2
    try:
        log("property %s tier=%s seed=%d repo=%s harnesses=%d smt=%d" % (
            a.prop, tier, seed, overlay.repo_identity(), len(hs), len(smt_obls)))
        smt_thread = None
        smt_out = {}
        if smt_obls:
            def run_smt():
                try:
                    smt_out["results"] = smt.run(smt_obls, R.root, log)
                except Exception:
                    smt_out["error"] = traceback.format_exc()
            smt_thread = threading.Thread(target=run_smt)
            smt_thread.start()
        if hs:
            R.run_all(hs)
        if smt_thread:
            smt_thread.join()
        codes = []
        for p in props:
            R.prop = p
            out_p = dict(smt_out)
            if "results" in smt_out:
                ids = set(o.id for o in sel[p][1])
                out_p["results"] = [r for r in smt_out["results"] if r["id"] in ids]
            codes.append(conclude(R, p, tier, seed, sel[p][0], sel[p][1], out_p, time.time() - t0, partial=bool(a.only)))
        exit_code = 1 if 1 in codes else (2 if any(c != 0 for c in codes) else 0)
    finally:
        R.cleanup()
    return exit_code


def conclude(R, prop, tier, seed, hs, smt_obls, smt_out, wall, partial):
    findings = load_findings()
    violations, known, inconclusive = [], [], []
    obligations = 0
    discharged = 0
    evaluations = 0
    nontrivial = 0
    per = []
    samples = []
    assumptions = set()
    functions = set()
    for h in hs:
        r = R.results.get(h.fn, {"status": "ERROR", "failed": [], "covers": [], "checks": 0})
        deciding = h.role == "deciding"
        covers_ok = all(c["status"] == "SATISFIED" for c in r["covers"])
        entry = {"harness": h.full, "engine": "kani", "variant": h.variant, "role": h.role, "expect": h.expect,
                 "status": r["status"], "checks": r["checks"], "failed": r["failed"][:10],
                 "covers": [{"desc": c["desc"], "status": c["status"]} for c in r["covers"]],
                 "wall_s": r.get("wall_s"), "cbmc_time_s": r.get("cbmc_time_s"), "max_rss_mb": r.get("max_rss_mb"),
                 "functions": h.functions, "bounds": h.bounds, "assumptions": h.assume, "stubs": r.get("stubs", []),
                 "notes": h.note}
        evaluations += r["checks"] + len(r["covers"])
        for x in h.assume:
            assumptions.add(x)
        for x in h.functions:
            functions.add(x)
        if deciding:
            obligations += 1
        st = r["status"]
        if h.expect.startswith("known:"):
            fid = h.expect.split(":", 1)[1]
            f = next((f for f in findings["findings"] if f["id"] == fid), None)
            if st == "PASS":
                entry["outcome"] = "passes (listed finding %s no longer reproduces)" % fid
                if deciding:
                    discharged += 1
            elif st == "FAIL" and f and finding_matches(f, h, r["failed"]):
                entry["outcome"] = "known finding " + fid
                known.append((f, h))
                if deciding:
                    discharged += 1
            elif st == "FAIL":
                violations.append((h, r))
                entry["outcome"] = "violation (fails differently from listed finding %s)" % fid
            else:
                entry["outcome"] = "inconclusive"
                if deciding:
                    inconclusive.append((h, r))
        elif h.expect == "fail":
            # expected-sat witness (e.g. documented precondition is necessary): informational
            entry["outcome"] = "witness " + ("found" if st == "FAIL" else "not found (%s)" % st)
            if deciding:
                if st == "FAIL":
                    discharged += 1
                else:
                    inconclusive.append((h, r))
        else:
            if st == "PASS" and covers_ok:
                entry["outcome"] = "discharged"
                if deciding:
                    discharged += 1
                nontrivial += 1
            elif st == "PASS":
                entry["outcome"] = "vacuous: cover not satisfied"
                if deciding:
                    inconclusive.append((h, r))
            elif st == "FAIL":
                if r.get("unwind_fail") and all("unwinding assertion" in f["desc"] for f in r["failed"]):
                    entry["outcome"] = "unwind bound too small"
                    if deciding:
                        inconclusive.append((h, r))
                else:
                    f = next((f for f in findings["findings"] if finding_matches(f, h, r["failed"])), None)
                    if f:
                        known.append((f, h))
                        entry["outcome"] = "known finding " + f["id"]
                        if deciding:
                            discharged += 1
                    else:
                        # a counterexample is decisive whatever the role of the harness (only timeouts / out-of-memory
                        # runs of best-effort harnesses are tolerated)
                        violations.append((h, r))
                        entry["outcome"] = "violation"
            else:
                entry["outcome"] = "inconclusive (%s)" % st
                if r.get("error"):
                    entry["error"] = r["error"][-1500:]
                if deciding:
                    inconclusive.append((h, r))
        per.append(entry)
        sat = [c["desc"] for c in r["covers"] if c["status"] == "SATISFIED"]
        if len(samples) < 12:
            samples.append({"obligation": h.full, "bounds": h.bounds, "result": entry.get("outcome"),
                            "reachability_witnesses_satisfied": sat[:8]})
    # ---- SMT
    from . import smt
    smt_viol = []
    if smt_obls:
        if "error" in smt_out:
            inconclusive.append((None, {"status": "ERROR", "error": smt_out["error"]}))
            per.append({"engine": "smt", "status": "ERROR", "error": smt_out["error"][-2000:]})
            obligations += len(smt_obls)
        else:
            for res in smt_out.get("results", []):
                per.append(res)
                evaluations += res.get("queries", 0)
                for x in res.get("assumptions", []):
                    assumptions.add(x)
                for x in res.get("functions", []):
                    functions.add(x)
                if res.get("role", "deciding") == "deciding":
                    obligations += 1
                if res["outcome"] == "discharged":
                    discharged += 1
                    nontrivial += 1
                elif res["outcome"] == "known":
                    discharged += 1
                    known.append(({"id": res["finding"]["id"], "property": prop, "what": res["finding"]["what"]}, None))
                elif res["outcome"] == "violation":
                    smt_viol.append(res)
                else:
                    if res.get("role", "deciding") == "deciding":
                        inconclusive.append((None, res))
                if len(samples) < 16:
                    samples.append({"obligation": res["id"], "engine": "smt", "statement": res.get("statement"),
                                    "result": res["outcome"], "solvers": res.get("solvers")})
    # ---- replay of violations
    lines = []
    confirmed = 0
    for h, r in violations:
        path, repro = R.replay(h, r)
        if repro is False:
            log("counterexample of %s did NOT reproduce natively -> inconclusive (harness or model wrong)" % h.fn)
            inconclusive.append((h, r))
            for e in per:
                if e.get("harness") == h.full:
                    e["outcome"] = "counterexample did not reproduce natively"
            continue
        confirmed += 1
        for e in per:
            if e.get("harness") == h.full:
                e["replay"] = path
                e["replayed_natively"] = repro
        lines.append("VIOLATION property=%s replay=%s" % (prop, path))
        for f in r["failed"][:5]:
            log("  failed check in %s: %s @ %s" % (h.fn, f["desc"], f["loc"]))
    for res in smt_viol:
        confirmed += 1
        lines.append("VIOLATION property=%s replay=%s" % (prop, res.get("replay", "")))
    seen = set()
    for f, h in known:
        if f["id"] in seen:
            continue
        seen.add(f["id"])
        print("KNOWN-FINDING: property=%s %s" % (prop, f["what"]), flush=True)
    for l in lines:
        print(l, flush=True)
    for h, r in inconclusive:
        log("INCONCLUSIVE: %s %s" % (h.fn if h else r.get("id", "smt"), r.get("status", r.get("outcome"))))
        for f in (r.get("failed") or [])[:4]:
            log("  failed check: %s @ %s" % (f["desc"], f["loc"]))
        for c in (r.get("covers") or []):
            if c["status"] != "SATISFIED":
                log("  cover not satisfied: %s (%s)" % (c["desc"], c["status"]))
        if r.get("error"):
            log("  " + r["error"][-800:].replace("\n", "\n  "))
    # ---- evidence
    ev = {
        "property_id": prop, "tier": tier, "seed": seed, "level": "model_checking",
        "coverage": {
            "evaluations": evaluations,
            "distinct_nontrivial": nontrivial,
            "rule": "evaluations = CBMC property checks + reachability covers decided by the SAT solver, plus SMT queries answered; "
                    "a case is one obligation (one Kani harness = one monomorphic symbolic execution of the listed functions over all "
                    "values of its symbolic inputs within the stated bounds, or one SMT obligation over the MIR encoding); it is counted "
                    "non-trivial only if it was discharged AND all of its reachability witnesses (kani::cover / sat twin query) were satisfied",
            "samples": samples,
            "obligations": obligations,
            "discharged": discharged,
            "trusted_base": TRUSTED_BASE + smt.trusted_base(smt_obls),
            "checker_cmd": "./vcheck %s --tier %s" % (prop, tier),
            "functions_encoded": sorted(functions),
            "per_obligation": per,
            "solver_time_s": round(sum((e.get("cbmc_time_s") or 0) + (e.get("solver_time_s") or 0) for e in per), 1),
            "known_findings_reported": sorted(seen),
            "repo": overlay.repo_identity(),
            "partial_run": partial,
            "run_scope": ("one pass over every claimed property (./vcheck ALL): wall_s is the wall time of the whole pass, the "
                          "cost of this property's own obligations is in per_obligation[].wall_s" if R.scope == "ALL"
                          else "this property's check alone"),
            "exhaustive": False,
        },
        "assumptions": sorted(assumptions),
        "wall_s": round(wall, 1),
        "violations": confirmed,
    }
    if not partial and not os.environ.get("VERIF_REPO") and not os.environ.get("VERIF_NO_EVIDENCE"):
        os.makedirs(EVID, exist_ok=True)
        with open(os.path.join(EVID, prop + ".json"), "w") as fh:
            json.dump(ev, fh, indent=1)
    log("%s: obligations=%d discharged=%d violations=%d inconclusive=%d known=%d wall=%.0fs" % (
        prop, obligations, discharged, confirmed, len(inconclusive), len(seen), wall))
    if confirmed:
        return 1
    if inconclusive:
        return 2
    return 0


def compile_only(variant):
    root = os.path.join(os.environ.get("VERIF_SCRATCH", "/var/tmp"), "statime-verif.dev")
    os.makedirs(root, exist_ok=True)
    repo, vh = overlay.make_variant(root, variant)
    hs = meta.scan()
    cmd = ["cargo", "kani", "-p", "statime", "--only-codegen", "--target-dir", os.path.join(root, variant, "tgt"),
           "--harness", "no_such_harness_xyz", "-Z", "stubbing"]
    p = subprocess.run(cmd, cwd=repo, env=kani.ENV, stdout=subprocess.PIPE, stderr=subprocess.STDOUT, text=True)
    out = p.stdout
    out = re.sub(r"warning: use of an unstable feature.*?\n\n", "", out, flags=re.S)
    errs = re.findall(r"^(error.*?)(?=^(?:error|warning)|\Z)", out, re.S | re.M)
    if errs:
        print("".join(errs)[:12000])
    else:
        print(out[-1500:])
    return 0 if p.returncode == 0 else 1
