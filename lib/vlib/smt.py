"""Engine M: MIR -> SMT-LIB obligations (filled in by vlib.mir2smt)."""


def obligations_for(prop, tier, only=None):
    try:
        from .mir2smt import obligations
    except ImportError:
        return []
    return obligations.select(prop, tier, only)


def run(obls, scratch_root, log):
    from .mir2smt import obligations
    return obligations.run(obls, scratch_root, log)


def trusted_base(obls):
    if not obls:
        return []
    from .mir2smt import obligations
    return obligations.TRUSTED_BASE
